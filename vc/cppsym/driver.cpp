// Replay driver: includes the engine translation unit of $VERIF_REPO as it is now and runs one concrete
// scenario through the exported C API.  Built with -fsanitize=address,undefined -D_GLIBCXX_ASSERTIONS
// by vc/cppsym/replay.py in a scratch directory; a crash / assertion / sanitizer report = reproduced.
#define protected public
#define private public
#include "engine.cpp"
#include <cstdio>
#include <cstring>
#include <cstdlib>

struct Sys {
  int w, h, d, S, R, E;
  std::vector<double> state; std::vector<int> chst; std::vector<int> env;
  double vol; std::vector<double> k; std::vector<int> sub; std::vector<int> sto; std::vector<double> D;
  std::vector<double> ts;
};

static Sys small_system(int w, int h, int d, bool with_reaction, double amount)
  {
  Sys s; s.w=w; s.h=h; s.d=d; s.S=2; s.R=with_reaction?2:0; s.E=1;
  int n=w*h*d;
  s.state.assign(2*n, 0.0); s.chst.assign(2*n, 0); s.env.assign(n, 0);
  for(int i=0;i<n;i++){ s.state[i]=amount*(1+i%3); s.state[n+i]=(i%2)?amount:0.0; }
  s.vol=1.0;
  if(with_reaction)
    { // A -> B (k=0.5) and reverse B -> A (k=0.1)
    s.k={0.5,0.1}; s.sub={1,0, 0,1}; s.sto={-1,1, 1,-1};
    }
  s.D={1.0, 0.5};
  return s;
  }

static int init_grid(Sys & s, const char * option, const char * policy, const char * mode, std::vector<double> ts,
                     double tmax, double dt, int seed, const char* bx="reflecting", const char* by="periodical", const char* bz="reflecting")
  {
  s.ts=ts;
  return engineexport_initialize_grid(s.w,s.h,s.d,s.S,s.R,s.E,s.state.data(),s.chst.data(),s.env.data(),s.vol,
     s.k.data(),s.sub.data(),s.sto.data(),s.D.data(),bx,by,bz,(int)s.ts.size(),s.ts.data(),policy,0.25,tmax,dt,seed,mode,option);
  }

static int init_graph(Sys & s, const char * option, const char * policy, const char * mode, std::vector<double> ts,
                      double tmax, double dt, int seed)
  {
  s.ts=ts;
  int n=s.w*s.h*s.d;
  std::vector<int> ei, ej; std::vector<double> es, ed, vol(n, 1.0);
  for(int i=0;i+1<n;i++){ ei.push_back(i); ej.push_back(i+1); es.push_back(1.0); ed.push_back(1.0); }
  if(n>2){ ei.push_back(0); ej.push_back(0); es.push_back(1.0); ed.push_back(1.0); }   // self loop
  if(n>1){ ei.push_back(0); ej.push_back(1); es.push_back(2.0); ed.push_back(1.0); }   // parallel edge
  return engineexport_initialize_graph(n,s.S,s.R,s.E,(int)ei.size(),ei.data(),ej.data(),es.data(),ed.data(),
     s.state.data(),s.chst.data(),s.env.data(),vol.data(),s.k.data(),s.sub.data(),s.sto.data(),s.D.data(),
     (int)s.ts.size(),s.ts.data(),policy,0.25,tmax,dt,seed,mode,option);
  }

static void drain()
  {
  int guard=0;
  while(engineexport_iterate_n(1000) && guard++<2000) {}
  int ns=engineexport_get_nsamples();
  std::vector<double> t(ns>0?ns:1); engineexport_get_tsample(t.data());
  }

int main(int argc, char ** argv)
  {
  if(argc<2) return 2;
  std::string sc=argv[1];
  const char * option = argc>2 ? argv[2] : "euler";
  const char * space  = argc>3 ? argv[3] : "grid";
  const char * policy = argc>4 ? argv[4] : "on_t_sample";
  const char * mode   = argc>5 ? argv[5] : "auto";
  int seed = argc>6 ? atoi(argv[6]) : 1;
  bool grid = std::string(space)=="grid";
  if(sc=="run-to-last-sample")
    {
    Sys s=small_system(2,2,1,true,5.0);
    int r = grid ? init_grid(s,option,policy,mode,{0.0,0.01,0.02},0.03,0.001,seed) : init_graph(s,option,policy,mode,{0.0,0.01,0.02},0.03,0.001,seed);
    if(r) return 3;
    drain(); engineexport_finalize(); return 0;
    }
  if(sc=="empty-sample-list")
    {
    Sys s=small_system(2,1,1,true,5.0);
    int r = grid ? init_grid(s,option,policy,mode,{},0.01,0.001,seed) : init_graph(s,option,policy,mode,{},0.01,0.001,seed);
    if(r) return 3;
    drain(); engineexport_finalize(); return 0;
    }
  if(sc=="zero-propensity")
    { // empty cells and a species that is absent: zero propensities / zero means
    Sys s=small_system(3,1,1,true,0.0);
    s.state[0]=4.0;
    int r = grid ? init_grid(s,option,policy,mode,{0.0,0.005},0.01,0.001,seed) : init_graph(s,option,policy,mode,{0.0,0.005},0.01,0.001,seed);
    if(r) return 3;
    drain(); engineexport_finalize(); return 0;
    }
  if(sc=="double-finalize")
    {
    Sys s=small_system(2,1,1,true,5.0);
    int r = grid ? init_grid(s,option,policy,mode,{0.0,0.001},0.002,0.001,seed) : init_graph(s,option,policy,mode,{0.0,0.001},0.002,0.001,seed);
    if(r) return 3;
    engineexport_iterate(); engineexport_finalize(); engineexport_finalize(); return 0;
    }
  if(sc=="setup-finalize-setup")
    {
    Sys s=small_system(2,1,1,true,5.0);
    for(int k=0;k<3;k++)
      {
      int r = grid ? init_grid(s,option,policy,mode,{0.0,0.001},0.002,0.001,seed) : init_graph(s,option,policy,mode,{0.0,0.001},0.002,0.001,seed);
      if(r) return 3;
      drain(); engineexport_finalize();
      }
    return 0;
    }
  if(sc=="degenerate")
    { // single cell, periodic axes of length 1 and 2
    Sys s=small_system(1,2,1,true,3.0);
    int r = grid ? init_grid(s,option,policy,mode,{0.0,0.002},0.004,0.001,seed,"periodical","periodical","periodical") : init_graph(s,option,policy,mode,{0.0,0.002},0.004,0.001,seed);
    if(r) return 3;
    drain(); engineexport_sample(); engineexport_finalize(); return 0;
    }
  if(sc=="sub-molecule-total")
    {
    Sys s=small_system(2,1,1,false,0.25);
    s.state={0.25,0.25,0.0,0.0};
    int r = grid ? init_grid(s,option,policy,mode,{0.0,0.001},0.002,0.001,seed) : init_graph(s,option,policy,mode,{0.0,0.001},0.002,0.001,seed);
    if(r) return 3;
    drain(); engineexport_finalize(); return 0;
    }
  if(sc=="step-legality")
    { // C07: every step of the exact stochastic engine is one possible event
    Sys s=small_system(3,1,1,true,4.0);
    s.chst[1]=1;                      // species 0 chemostated in cell 1
    int S=s.S, R=s.R, n=3;
    int r = grid ? init_grid(s,"gillespie",policy,"none",{0.0},1e9,0.001,seed,"periodical","reflecting","reflecting") : init_graph(s,"gillespie",policy,"none",{0.0},1e9,0.001,seed);
    if(r) return 3;
    std::vector<double> & x = grid ? global_grid_algo->mesh_x : global_graph_algo->mesh_x;
    double & tt = grid ? global_grid_algo->t : global_graph_algo->t;
    for(int it=0; it<3000; it++)
      {
      std::vector<double> x0=x; double t0=tt;
      if(!engineexport_iterate()) break;
      if(!(tt>t0)) { fprintf(stderr,"step-legality: time did not increase at step %d\n",it); return 7; }
      int changed=0; std::vector<int> idx;
      for(size_t e=0;e<x.size();e++)
        {
        if(x[e]<0 || x[e]!=floor(x[e])) { fprintf(stderr,"step-legality: entry %zu = %g after step %d\n",e,x[e],it); return 7; }
        if(x[e]!=x0[e]) { changed++; idx.push_back((int)e); }
        }
      bool ok=false;
      // a reaction in one cell (cell-major layout: entry = cell*S+species)
      for(int c=0;c<n && !ok;c++) for(int q=0;q<R && !ok;q++)
        {
        bool enough=true, match=true;
        for(int sp=0;sp<S;sp++)
          {
          if(x0[c*S+sp] < s.sub[sp*R+q]) enough=false;
          double want = s.chst[sp*n+c] ? 0.0 : (double)s.sto[sp*R+q];
          if(x[c*S+sp]-x0[c*S+sp]!=want) match=false;
          }
        for(size_t e=0;e<x.size();e++) if((int)e/S!=c && x[e]!=x0[e]) match=false;
        if(enough && match) ok=true;
        }
      // one molecule moving between two different cells (or in and out of a chemostated entry)
      for(int sp=0;sp<S && !ok;sp++) for(int a=0;a<n && !ok;a++) for(int b=0;b<n && !ok;b++)
        {
        if(x0[a*S+sp]<1) continue;
        std::vector<double> y=x0;
        if(!s.chst[sp*n+a]) y[a*S+sp]-=1;
        if(!s.chst[sp*n+b]) y[b*S+sp]+=1;
        if(y==x) ok=true;
        }
      if(!ok) { fprintf(stderr,"step-legality: step %d is not one possible event (%d entries changed)\n",it,changed); return 7; }
      }
    engineexport_finalize(); return 0;
    }
  if(sc=="conservation")
    { // C02: A <-> B keeps A+B; no chemostat; all engines
    Sys s=small_system(3,2,1,true,6.0);
    int S=s.S, n=6;
    int r = grid ? init_grid(s,option,policy,"none",{0.0},1e9,0.0005,seed,"periodical","reflecting","reflecting") : init_graph(s,option,policy,"none",{0.0},1e9,0.0005,seed);
    if(r) return 3;
    std::vector<double> & x = grid ? global_grid_algo->mesh_x : global_graph_algo->mesh_x;
    double tot0=0; for(size_t e=0;e<x.size();e++) tot0+=x[e];
    bool exact = std::string(option)!="euler";
    for(int it=0; it<2000; it++)
      {
      if(!engineexport_iterate()) break;
      double tot=0; for(size_t e=0;e<x.size();e++) tot+=x[e];
      if(exact ? tot!=tot0 : fabs(tot-tot0)>1e-9*tot0) { fprintf(stderr,"conservation: total %.17g became %.17g at step %d\n",tot0,tot,it); return 7; }
      }
    (void)S; (void)n;
    engineexport_finalize(); return 0;
    }
  if(sc=="pairing")
    { // C02 (bounded stand-in): every directed interface has a mate carrying the opposite flux
    if(grid)
      {
      const char * bcs[2]={"reflecting","periodical"};
      for(int w=1;w<=4;w++) for(int h=1;h<=4;h++) for(int d=1;d<=3;d++) for(int b=0;b<8;b++)
        {
        Sys s=small_system(w,h,d,false,1.0);
        int r=init_grid(s,"euler","no_sampling","none",{0.0},1.0,0.001,seed,bcs[b&1],bcs[(b>>1)&1],bcs[(b>>2)&1]);
        if(r) return 3;
        std::vector<int> & nb=global_grid_algo->mesh_neighbors; std::vector<int> & opp=global_grid_algo->opposed_direction;
        for(int n=0;n<6;n++) if(opp[opp[n]]!=n || opp[n]==n) { fprintf(stderr,"pairing: opposed_direction is not a fixed-point-free involution\n"); return 7; }
        for(int i=0;i<w*h*d;i++) for(int n=0;n<6;n++)
          {
          int j=nb[i*6+n];
          if(j==-1) continue;
          if(j<0 || j>=w*h*d || nb[j*6+opp[n]]!=i)
            { fprintf(stderr,"pairing: grid %dx%dx%d bc %d: neighbour %d of cell %d is %d whose opposite neighbour is %d\n",w,h,d,b,n,i,j,(j>=0&&j<w*h*d)?nb[j*6+opp[n]]:-2); return 7; }
          }
        engineexport_finalize();
        }
      return 0;
      }
    // multigraphs: path, cycle, star with a self loop, parallel edges, two components, single node with two self loops
    std::vector<std::vector<std::pair<int,int>>> graphs = {
      {{0,1},{1,2},{2,3}}, {{0,1},{1,2},{2,0}}, {{0,1},{0,2},{0,3},{0,0}}, {{0,1},{0,1},{1,0},{1,2}}, {{0,1},{2,3},{3,2}}, {{0,0},{0,0}} };
    for(size_t g=0; g<graphs.size(); g++)
      {
      int n=0; for(auto & e : graphs[g]) { n=std::max(n,std::max(e.first,e.second)+1); }
      int S=2, E=2;
      std::vector<int> ei, ej; std::vector<double> es, ed, vol(n), state(S*n,1.0); std::vector<int> chst(S*n,0), env(n);
      for(int i=0;i<n;i++){ vol[i]=1.0+0.37*i; env[i]=i%2; }
      int k=0; for(auto & e : graphs[g]) { ei.push_back(e.first); ej.push_back(e.second); es.push_back(1.0+0.5*k); ed.push_back(0.7+0.2*k); k++; }
      std::vector<double> D={1.0,0.0, 0.5,2.0}, kk; std::vector<int> sub, sto; std::vector<double> ts={0.0};
      int r=engineexport_initialize_graph(n,S,0,E,(int)ei.size(),ei.data(),ej.data(),es.data(),ed.data(),state.data(),chst.data(),env.data(),
            vol.data(),kk.data(),sub.data(),sto.data(),D.data(),1,ts.data(),"no_sampling",0.25,1.0,0.001,seed,"none","euler");
      if(r) return 3;
      SimulationAlgorithmGraphBase * a=global_graph_algo;
      std::vector<int> cnt(n,0);
      for(size_t e=0;e<ei.size();e++)
        {
        int i=ei[e], j=ej[e];
        int p=cnt[i]++; int q=cnt[j]++;
        if(p>=a->mesh_neighbor_n[i] || q>=a->mesh_neighbor_n[j] || a->mesh_neighbor_index[i][p]!=j || a->mesh_neighbor_index[j][q]!=i)
          { fprintf(stderr,"pairing: graph %zu edge %zu: slots (%d,%d) do not point at each other\n",g,e,p,q); return 7; }
        for(int sp=0;sp<S;sp++)
          {
          double oi=a->mesh_kd_out[i][sp*a->mesh_neighbor_n[i]+p], ii=a->mesh_kd_in[i][sp*a->mesh_neighbor_n[i]+p];
          double oj=a->mesh_kd_out[j][sp*a->mesh_neighbor_n[j]+q], ij=a->mesh_kd_in[j][sp*a->mesh_neighbor_n[j]+q];
          if(oi!=ij || ii!=oj) { fprintf(stderr,"pairing: graph %zu edge %zu species %d: out/in constants of the two slots differ (%g,%g / %g,%g)\n",g,e,sp,oi,ii,oj,ij); return 7; }
          }
        }
      for(int i=0;i<n;i++) if(cnt[i]!=a->mesh_neighbor_n[i]) { fprintf(stderr,"pairing: graph %zu node %d has %d slots for %d edge ends\n",g,i,a->mesh_neighbor_n[i],cnt[i]); return 7; }
      engineexport_finalize();
      }
    return 0;
    }
  if(sc=="init-state-layout")
    { // C14: the state handed to the engine must keep every (cell, species) amount in its own slot, whatever the mode:
      // species 0 lives in cell 1 only, species 1 is absent.  A molecule of species 1, or of species 0 in cell 0,
      // means the amounts were read in the wrong layout.
    Sys s=small_system(2,1,1,false,0.0);
    s.state={0.0,60.0, 0.0,0.0};   // species-major: A(cell0)=0 A(cell1)=60 ; B(cell0)=0 B(cell1)=0
    int r = grid ? init_grid(s,option,policy,mode,{0.0,0.001},0.002,0.001,seed) : init_graph(s,option,policy,mode,{0.0,0.001},0.002,0.001,seed);
    if(r) return 3;
    std::vector<double> & x = grid ? global_grid_algo->mesh_x : global_graph_algo->mesh_x;   // cell-major
    double a0=x[0], b0=x[1], a1=x[2], b1=x[3];
    engineexport_finalize();
    if(b0!=0.0 || b1!=0.0 || a0!=0.0)
      { fprintf(stderr,"init-state-layout: A=(%g,%g) B=(%g,%g) from A=(0,60) B=(0,0)\n",a0,a1,b0,b1); return 7; }
    if(a1!=floor(a1) || a1<0) { fprintf(stderr,"init-state-layout: non-integer or negative amount %g\n",a1); return 7; }
    return 0;
    }
  return 2;
  }
