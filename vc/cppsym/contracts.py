"""Class invariants and symbolic object states of the engine classes (sidecar contracts).

inv(I, o) lists the representation invariant of an algorithm object after Init:
vector lengths as functions of n_meshes / n_species / n_reactions / n_env, ranges of the index-valued
tables, the sampling cursor, and the per-algorithm work arrays.  Content facts that are universally
quantified over an index (environment indices, neighbour indices, row lengths of the ragged tables) are
instantiated at every read of the table (interp.elem_facts / row_facts) and must be re-established at a
Skolem index by whoever writes the table (Init).
"""
import z3
from .interp import Interp, Frame, Obj, Vec, Vec2, Undef, Opaque, SORT

GRID = ("Euler3D", "TauLeap3D", "Gillespie3D")
GRAPH = ("EulerGraph", "TauLeapGraph", "GillespieGraph")
ALL = GRID + GRAPH


def is_grid(cls):
    return cls in GRID or cls == "SimulationAlgorithm3DBase"


def fresh_state(I, cls, full=True):
    """object of class cls with every scalar field a fresh symbol and every vector a fresh array"""
    o = I.new_object(cls)
    for (name, t) in I.prog.all_fields(cls):
        v = o.fields[name]
        if isinstance(v, Undef):
            o.fields[name] = I.fresh(name, v.kind)
        elif isinstance(v, Vec):
            o.fields[name] = I.fresh_vec(name, v.kind)
        elif isinstance(v, Vec2):
            n = I.fresh(name + "_n", "int")
            I.c.assume(n >= 0)
            o.fields[name] = Vec2(v.kind, n, z3.Array(I.c.fresh(name + "_lens"), z3.IntSort(), z3.IntSort()),
                                  z3.Array(I.c.fresh(name), z3.IntSort(), z3.ArraySort(z3.IntSort(), SORT[v.kind])))
        elif isinstance(v, Opaque) and v.tag == "dist":
            o.fields[name] = Opaque("uniform")
    return o


def sizes(o):
    f = o.fields
    return f["n_meshes"], f["n_species"], f["n_reactions"], f["n_env"]


def inv(I, o):
    """representation invariant (list of z3 facts)"""
    f = o.fields
    M, S, R, E = sizes(o)
    out = [M >= 1, S >= 0, R >= 0, E >= 1,
           f["mesh_x"].n == M * S, f["mesh_chstt"].n == M * S, f["mesh_env"].n == M,
           f["sub"].n == S * R, f["sto"].n == S * R, f["mesh_kr"].n == M * R,
           f["t_samples"].n == f["n_samples"], f["n_samples"] >= 0,
           f["sample_pos"] >= 0, f["sample_pos"] <= f["n_samples"],
           f["sampled_mesh_x"].n == f["sampled_t"].n,
           f["sampling_policy_code"] >= 0, f["sampling_policy_code"] <= 3]
    if is_grid(o.cls):
        w, h, d = f["w"], f["h"], f["d"]
        out += [w >= 1, h >= 1, d >= 1, M == w * h * d,
                f["mesh_neighbors"].n == M * 6, f["mesh_kd"].n == S * M * 6,
                f["opposed_direction"].n == 6, f["delta_i"].n == 6, f["boundary_conditions"].n == 3]
        for k, v in enumerate((1, 0, 3, 2, 5, 4)):
            out.append(z3.Select(f["opposed_direction"].arr, k) == v)
    else:
        out += [f["mesh_vol"].n == M, f["mesh_neighbor_n"].n == M,
                f["mesh_neighbor_index"].n == M, f["mesh_neighbor_sfc"].n == M, f["mesh_neighbor_dst"].n == M,
                f["mesh_kd_out"].n == M, f["mesh_kd_in"].n == M]
    c = o.cls
    if c == "Euler3D" or c == "EulerGraph":
        out.append(f["mesh_dxdt"].n == S * M)
    if c == "Gillespie3D":
        out += [f["mesh_ar"].n == R * M, f["mesh_ad"].n == 6 * S * M, f["mesh_a0r"].n == M, f["mesh_a0d"].n == M]
    if c == "GillespieGraph":
        out += [f["mesh_ar"].n == R * M, f["mesh_ad"].n == M, f["mesh_a0r"].n == M, f["mesh_a0d"].n == M]
    if c == "TauLeap3D":
        out += [f["mesh_nr"].n == R * M, f["mesh_nd"].n == 6 * S * M]
    if c == "TauLeapGraph":
        out += [f["mesh_nr"].n == R * M, f["mesh_nd"].n == M]
    return out


def elem_facts():
    """universally quantified content invariants, instantiated at each read: field -> fact(I, o, elem, idx)"""
    def env(I, o, e, i):
        return z3.And(e >= 0, e < o.fields["n_env"])

    def neigh(I, o, e, i):
        return z3.And(e >= -1, e < o.fields["n_meshes"])

    def nidx(I, o, e, i):
        return z3.And(e >= 0, e < o.fields["n_meshes"])

    def nn(I, o, e, i):
        return e >= 0

    def flag(I, o, e, i):
        return None

    return {"mesh_env": env, "mesh_neighbors": neigh, "mesh_neighbor_index": nidx, "mesh_neighbor_n": nn,
            # ABI: edge end points are node indices (Python side: RDGraphSpace edges of a valid graph)
            "edge_i": nidx, "edge_j": nidx}


def row_facts():
    """row lengths of the ragged tables: field -> fact(I, o, rowlen, idx)"""
    def per_neighbor(I, o, ln, i):
        return ln == z3.Select(o.fields["mesh_neighbor_n"].arr, i)

    def per_species_neighbor(I, o, ln, i):
        return ln == o.fields["n_species"] * z3.Select(o.fields["mesh_neighbor_n"].arr, i)

    def whole_state(I, o, ln, i):
        return ln == o.fields["n_meshes"] * o.fields["n_species"]

    return {"sampled_mesh_x": whole_state, "trajectory_data_vec": whole_state,
            "mesh_neighbor_index": per_neighbor, "mesh_neighbor_sfc": per_neighbor, "mesh_neighbor_dst": per_neighbor,
            "mesh_kd_out": per_species_neighbor, "mesh_kd_in": per_species_neighbor,
            "mesh_ad": per_species_neighbor, "mesh_nd": per_species_neighbor}


# ---------------------------------------------------------------------------
# entry-wise invariants that relate a work array to the (immutable) neighbour table:
#   "no event is ever scheduled towards a missing neighbour"
#   mesh_neighbors[i*6+n] == -1  ==>  mesh_nd / mesh_ad [i*6*S + s*6 + n] == 0
# checked at every store (the store sites name the loop variables i, s, n), assumed at every read
# whose index is built from variables called (i | mesh_index), (s | j | species_index), (n | direction).
def _isn(I, fr, names):
    for nm in names:
        v = I.local_by_name(fr, nm)
        if v is not None and z3.is_expr(v):
            return v
    return None


def _no_event_to_missing_neighbour(I, o, fr, elem, idx):
    if not is_grid(o.cls):
        return None
    i = _isn(I, fr, ("i", "mesh_index"))
    n = _isn(I, fr, ("n", "direction"))
    if i is None or n is None:
        return None
    S = o.fields["n_species"]
    # the index must be the entry of (cell i, some species, direction n)
    s = z3.Int(I.c.fresh("sp"))
    shape = z3.And(s >= 0, s < S, idx == i * 6 * S + s * 6 + n)
    nb = z3.Select(o.fields["mesh_neighbors"].arr, i * 6 + n)
    ez = elem if not z3.is_int(elem) else elem
    return z3.Implies(z3.And(z3.Exists([s], shape) if False else _shape_holds(I, o, fr, idx, i, n), nb == -1), ez == 0)


def _shape_holds(I, o, fr, idx, i, n):
    s = _isn(I, fr, ("s", "j", "species_index"))
    if s is None:
        return z3.BoolVal(False)
    S = o.fields["n_species"]
    return z3.Or(idx == i * 6 * S + s * 6 + n, idx == i * S * 6 + s * 6 + n)


def _diffusion_needs_a_molecule(I, o, fr, elem, idx):
    """Gillespie: mesh_ad[(i, s, n)] > 0  ==>  mesh_x[i*S+s] > 0   (a propensity x*kd with kd >= 0)"""
    if not is_gillespie(o):
        return None
    i = _isn(I, fr, ("i", "mesh_index"))
    s = _isn(I, fr, ("s", "j", "species_index"))
    if i is None or s is None:
        return None
    f = o.fields
    return z3.Implies(elem > 0, z3.Select(f["mesh_x"].arr, i * f["n_species"] + s) > 0)


def _ad_read(I, o, fr, elem, idx):
    return _conj(_no_event_to_missing_neighbour(I, o, fr, elem, idx), _diffusion_needs_a_molecule(I, o, fr, elem, idx))


def read_facts():
    return {"mesh_nd": _no_event_to_missing_neighbour, "mesh_ad": _ad_read,
            "mesh_x": _integrality_where_written, "sto": _integrality_where_written}


def _neighbor_value_in_range(I, o, fr, elem, idx):
    f = o.fields
    return z3.And(elem >= -1, elem < f["w"] * f["h"] * f["d"])


def _node_index_in_range(I, o, fr, elem, idx):
    return z3.And(elem >= 0, elem < o.fields["n_meshes"])


def store_checks():
    return {"mesh_nd": _no_event_to_missing_neighbour, "mesh_ad": _no_event_to_missing_neighbour,
            "mesh_neighbors": _neighbor_value_in_range}


def assume_content_invariants(I, o):
    """content invariants that are not instantiated at reads (scalars)"""
    f = o.fields
    if o.cls.startswith("Gillespie"):
        I.c.assume(f["a0"] >= 0)


def valid_object(I, cls, without_grid_shape=False):
    """arbitrary object of class cls satisfying the representation invariant
    (without_grid_shape: omit n_meshes == w*h*d for functions that never read w, h, d)"""
    o = fresh_state(I, cls)
    for fct in inv(I, o):
        if without_grid_shape and is_grid(cls) and z3.eq(fct, o.fields["n_meshes"] == o.fields["w"] * o.fields["h"] * o.fields["d"]):
            continue
        I.c.assume(fct)
    return o


def check_inv(I, o, P):
    for k, fct in enumerate(inv(I, o)):
        I.c.oblige("%s/invariant.%d" % (P, k), fct, "ensures")


def make_interp(prog, ctx, prop, loop_inv=None):
    ef = elem_facts()
    ef.update(more_elem_facts())
    I = Interp(prog, ctx, prop, loop_inv=loop_inv, elem_facts=ef)
    I.row_facts = row_facts()
    I.read_facts = read_facts()
    sc = more_store_checks()
    base = store_checks()
    for k_, f in base.items():
        if k_ in sc:
            g = sc[k_]
            sc[k_] = (lambda f_, g_: (lambda I_, o, fr, v, idx: _conj(f_(I_, o, fr, v, idx), g_(I_, o, fr, v, idx))))(f, g)
        else:
            sc[k_] = f
    I.store_checks = sc
    return I


def _conj(a, b):
    if a is None:
        return b
    if b is None:
        return a
    return z3.And(a, b)


# ---------------------------------------------------------------------------
# loop invariants (keyed by method name and loop ordinal inside the method, in source order)
def _f(fr):
    return fr.this.fields


def inv_sample_on_tsample(I, fr, stage):
    """while loop of SampleOnTSample: every requested time passed so far is <= t; at most one record, made
    exactly when the cursor has moved (ghost values are the state at loop entry)"""
    f = _f(fr)
    if not hasattr(I, "ghost") or I.ghost is None:
        I.ghost = {}
    if stage == "init":
        I.ghost["tsample"] = {"pos0": f["sample_pos"], "t0": f["t"], "ts0": f["t_samples"].arr, "n0": f["sampled_t"].n,
                              "done0": f["sampling_done_this_iteration"], "st0": f["sampled_t"].arr}
    g = I.ghost["tsample"]
    p = z3.Int("p!q")
    return [f["sampled_mesh_x"].n == f["sampled_t"].n, f["sample_pos"] >= g["pos0"], f["sample_pos"] >= 0,
            f["sample_pos"] <= f["n_samples"],
            z3.ForAll([p], z3.Implies(z3.And(p >= g["pos0"], p < f["sample_pos"]), f["t"] >= z3.Select(f["t_samples"].arr, p))),
            f["t"] == g["t0"], f["t_samples"].arr == g["ts0"],
            z3.If(f["sample_pos"] > g["pos0"],
                  z3.And(f["sampling_done_this_iteration"], f["sampled_t"].n == g["n0"] + z3.If(g["done0"], 0, 1),
                         z3.Implies(z3.Not(g["done0"]),
                                    z3.And(z3.Select(f["sampled_t"].arr, g["n0"]) == g["t0"],
                                           z3.Select(f["sampled_mesh_x"].arr, g["n0"]) == f["mesh_x"].arr,
                                           z3.Select(f["sampled_mesh_x"].lens, g["n0"]) == f["mesh_x"].n))),
                  z3.And(f["sampled_t"].n == g["n0"], f["sampling_done_this_iteration"] == g["done0"]))]


def inv_draw_outer(I, fr, stage):
    """DrawAndApplyEvent, loop over cells: the drawn number has not been passed yet"""
    r = I.local_by_name(fr, "r")
    cum = I.local_by_name(fr, "a0_cumul")
    if r is None or cum is None:
        return [z3.BoolVal(False)]
    return [r >= cum, cum >= 0]


def inv_draw_inner(I, fr, stage):
    r2 = I.local_by_name(fr, "r2")
    cum = I.local_by_name(fr, "a_cumul")
    if r2 is None or cum is None:
        return [z3.BoolVal(False)]
    return [r2 >= cum]


def rows_match_counts(I, o):
    """forall m in [0, n_meshes): the three ragged neighbour tables have mesh_neighbor_n[m] entries in row m,
    counts are non-negative, and every stored neighbour index is a node index"""
    f = o.fields
    m = z3.Int("m!q")
    k = z3.Int("k!q")
    cnt = z3.Select(f["mesh_neighbor_n"].arr, m)
    rng = z3.And(m >= 0, m < f["n_meshes"])
    out = [z3.ForAll([m], z3.Implies(rng, z3.And(cnt >= 0,
                                                 z3.Select(f["mesh_neighbor_index"].lens, m) == cnt,
                                                 z3.Select(f["mesh_neighbor_sfc"].lens, m) == cnt,
                                                 z3.Select(f["mesh_neighbor_dst"].lens, m) == cnt))),
           z3.ForAll([m, k], z3.Implies(z3.And(rng, k >= 0, k < cnt),
                                        z3.And(z3.Select(z3.Select(f["mesh_neighbor_index"].arr, m), k) >= 0,
                                               z3.Select(z3.Select(f["mesh_neighbor_index"].arr, m), k) < f["n_meshes"])))]
    return out


def inv_set_neighbors(I, fr, stage):
    f = _f(fr)
    M = f["n_meshes"]
    return [f["mesh_neighbor_n"].n == M, f["mesh_neighbor_index"].n == M, f["mesh_neighbor_sfc"].n == M,
            f["mesh_neighbor_dst"].n == M] + rows_match_counts(I, fr.this)


def inv_build_kd_graph(I, fr, stage):
    f = _f(fr)
    M = f["n_meshes"]
    return [f["mesh_kd_out"].n == M, f["mesh_kd_in"].n == M]


LOOP_INV = {
    ("SetNeighbors", 1): inv_set_neighbors,
    ("SampleOnTSample", 1): inv_sample_on_tsample,
    ("DrawAndApplyEvent", 1): inv_draw_outer,
    ("DrawAndApplyEvent", 2): inv_draw_inner,
    ("DrawAndApplyEvent", 3): inv_draw_inner,
    ("DrawAndApplyEvent", 4): inv_draw_inner,
}


# ---------------------------------------------------------------------------
# ABI precondition of Init (what a valid script hands to the engine; established on the Python side by
# LibRDEngine._setup_grid/_setup_graph, see the seam contract) and symbolic arguments satisfying it
def abi_args_grid(I):
    c = I.c
    iv = lambda nm, lo=None: _int(I, nm, lo)
    w, h, d = iv("w", 1), iv("h", 1), iv("d", 1)
    S, R, E = iv("n_species", 0), iv("n_reactions", 0), iv("n_env", 1)
    M = w * h * d
    c.assume(M >= 1)
    x0 = I.fresh_vec("arg_mesh_x0", "real", M * S)
    chst = I.fresh_vec("arg_mesh_chstt", "int", M * S)
    env = I.fresh_vec("arg_mesh_env", "int", M)
    vol = I.fresh("arg_mesh_vol", "real")
    c.assume(vol > 0)
    k = I.fresh_vec("arg_k", "real", E * R)
    sub = I.fresh_vec("arg_sub", "real", S * R)
    sto = I.fresh_vec("arg_sto", "real", S * R)
    D = I.fresh_vec("arg_D", "real", S * E)
    bc = I.fresh_vec("arg_bc", "int", z3.IntVal(3))
    for kk in range(3):
        e = z3.Select(bc.arr, kk)
        c.assume(z3.Or(e == 0, e == 1))
    ns = iv("sample_n", 0)
    ts = I.fresh_vec("arg_t_samples", "real", ns)
    pol = iv("policy", 0)
    c.assume(pol <= 3)
    si, tmax, dt = I.fresh("sampling_interval", "real"), I.fresh("t_max", "real"), I.fresh("time_step", "real")
    c.assume(dt > 0)
    c.assume(si > 0)
    seed = iv("seed")
    args = [w, h, d, S, R, E, x0, chst, env, vol, k, sub, sto, D, bc, ns, ts, pol, si, tmax, dt, seed]
    return args, {"env": env, "M": M, "S": S, "R": R, "E": E, "w": w, "h": h, "d": d}


def abi_args_graph(I):
    c = I.c
    iv = lambda nm, lo=None: _int(I, nm, lo)
    M = iv("n_nodes", 1)
    S, R, E = iv("n_species", 0), iv("n_reactions", 0), iv("n_env", 1)
    ne = iv("n_edges", 0)
    ei = I.fresh_vec("arg_edge_i", "int", ne)
    ej = I.fresh_vec("arg_edge_j", "int", ne)
    es = I.fresh_vec("arg_edge_sfc", "real", ne)
    ed = I.fresh_vec("arg_edge_dst", "real", ne)
    x0 = I.fresh_vec("arg_mesh_x0", "real", M * S)
    chst = I.fresh_vec("arg_mesh_chstt", "int", M * S)
    env = I.fresh_vec("arg_mesh_env", "int", M)
    vol = I.fresh_vec("arg_mesh_vol", "real", M)
    k = I.fresh_vec("arg_k", "real", E * R)
    sub = I.fresh_vec("arg_sub", "real", S * R)
    sto = I.fresh_vec("arg_sto", "real", S * R)
    D = I.fresh_vec("arg_D", "real", S * E)
    ns = iv("sample_n", 0)
    ts = I.fresh_vec("arg_t_samples", "real", ns)
    pol = iv("policy", 0)
    c.assume(pol <= 3)
    si, tmax, dt = I.fresh("sampling_interval", "real"), I.fresh("t_max", "real"), I.fresh("time_step", "real")
    c.assume(dt > 0)
    c.assume(si > 0)
    seed = iv("seed")
    args = [M, S, R, E, ne, ei, ej, es, ed, x0, chst, env, vol, k, sub, sto, D, ns, ts, pol, si, tmax, dt, seed]
    return args, {"env": env, "M": M, "S": S, "R": R, "E": E, "edge_i": ei, "edge_j": ej, "ne": ne}


def _int(I, nm, lo=None):
    z = I.fresh(nm, "int")
    if lo is not None:
        I.c.assume(z >= lo)
    return z


# ---------------------------------------------------------------------------
# Non-negativity / integrality chain of the exact stochastic engine (C07; C11 depends on it for the
# index safety of ApplyDiffusion on grids).
#   ABI           k >= 0, D >= 0, volumes > 0, sub >= 0 integer, sto integer, sto >= -sub,
#                 x0 non-negative integers (processed initial state)
#   entry facts   mesh_kr, mesh_kd(_out/_in) >= 0 ; Gillespie: mesh_x >= 0 integer ; propensity arrays >= 0
#   ghost         for every species s:  mesh_ar[i*R+r] > 0  ==>  mesh_x[i*S+s] >= sub[s*R+r]
#                 (checked at the store of mesh_ar for a Skolem species s*, used at ApplyReaction's s)
def is_gillespie(o):
    return o.cls.startswith("Gillespie")


_WIT = [0]


def int_valued_fact(e):
    """assumption 'e is integer-valued' with a Skolem witness (z3 reasons poorly with IsInt)"""
    _WIT[0] += 1
    k = z3.Int("intw!%d" % _WIT[0])
    return e == z3.ToReal(k)


def int_valued_goal(e, ctx=None):
    """goal 'e is integer-valued'.  With a context, a structural argument is tried first: sums, differences,
    products and if-then-elses of integer-valued terms are integer-valued; a term is integer-valued when it is
    to_real(_), an integer numeral, or the path condition holds  term == to_real(k)  (a witness from a read)."""
    if ctx is not None and _structurally_int(z3.simplify(e), ctx):
        return z3.BoolVal(True)
    return e == z3.ToReal(z3.ToInt(e))


def int_term(e, ctx, depth=0):
    """an Int-sorted term equal to the real-valued e when e is integer-valued for a structural reason (see
    int_valued_goal), else None.  Used for C++ double -> int conversions of integer-valued doubles."""
    if z3.is_int(e):
        return e
    if z3.is_rational_value(e):
        return z3.IntVal(e.numerator_as_long()) if e.denominator_as_long() == 1 else None
    if not z3.is_app(e) or depth > 12:
        return None
    k = e.decl().kind()
    if k == z3.Z3_OP_TO_REAL:
        return e.arg(0)
    if k in (z3.Z3_OP_ADD, z3.Z3_OP_SUB, z3.Z3_OP_MUL, z3.Z3_OP_UMINUS):
        ch = [int_term(c, ctx, depth + 1) for c in e.children()]
        if any(c is None for c in ch):
            return None
        if k == z3.Z3_OP_UMINUS:
            return -ch[0]
        acc = ch[0]
        for c in ch[1:]:
            acc = acc + c if k == z3.Z3_OP_ADD else (acc - c if k == z3.Z3_OP_SUB else acc * c)
        return acc
    if k == z3.Z3_OP_ITE:
        a, b = int_term(e.arg(1), ctx, depth + 1), int_term(e.arg(2), ctx, depth + 1)
        return None if a is None or b is None else z3.If(e.arg(0), a, b)
    for f in reversed(ctx.pc):
        for g in (f.children() if z3.is_and(f) else [f]):
            if z3.is_eq(g):
                a, b = g.children()
                if z3.is_app(b) and b.decl().kind() == z3.Z3_OP_TO_REAL and a.get_id() == e.get_id():
                    return b.arg(0)
                if z3.is_app(a) and a.decl().kind() == z3.Z3_OP_TO_REAL and b.get_id() == e.get_id():
                    return a.arg(0)
    return None


def _structurally_int(e, ctx, depth=0):
    if z3.is_int(e):
        return True
    if z3.is_rational_value(e):
        return e.denominator_as_long() == 1
    if not z3.is_app(e) or depth > 12:
        return False
    k = e.decl().kind()
    if k == z3.Z3_OP_TO_REAL:
        return True
    if k in (z3.Z3_OP_ADD, z3.Z3_OP_SUB, z3.Z3_OP_MUL, z3.Z3_OP_UMINUS):
        return all(_structurally_int(c, ctx, depth + 1) for c in e.children())
    if k == z3.Z3_OP_ITE:
        return all(_structurally_int(c, ctx, depth + 1) for c in e.children()[1:])
    if k == z3.Z3_OP_SELECT and z3.is_app(e.arg(0)) and e.arg(0).decl().kind() == z3.Z3_OP_STORE:
        st = e.arg(0)
        if (_structurally_int(st.arg(2), ctx, depth + 1) and
                _structurally_int(z3.Select(st.arg(0), e.arg(1)), ctx, depth + 1)):
            return True
    wit = getattr(ctx, "_int_witnessed", None)
    if wit is None or wit[0] != len(ctx.pc):
        ids = set()
        for f in ctx.pc:
            for g in (f.children() if z3.is_and(f) else [f]):
                if z3.is_eq(g):
                    a, b = g.children()
                    if z3.is_app(b) and b.decl().kind() == z3.Z3_OP_TO_REAL:
                        ids.add(z3.simplify(a).get_id())
                        ids.add(a.get_id())
                    if z3.is_app(a) and a.decl().kind() == z3.Z3_OP_TO_REAL:
                        ids.add(z3.simplify(b).get_id())
                        ids.add(b.get_id())
        wit = (len(ctx.pc), ids)
        ctx._int_witnessed = wit
    return e.get_id() in wit[1]


def nonneg(I, o, e, i):
    return e >= 0


def pos(I, o, e, i):
    return e > 0


def nonneg_int(I, o, e, i):
    return e >= 0


def x_fact(I, o, e, i):
    if not is_gillespie(o):
        return None
    return e >= 0


def _integrality_where_written(I, o, fr, e, idx):
    """integer-valuedness of state / stoichiometry entries, instantiated only inside the two writers of
    the exact stochastic engine (keeps the other queries purely real)"""
    if not is_gillespie(o):
        return None
    if fr.fn.endswith("ApplyDiffusion") or (getattr(I, "check_integrality", False) and fr.fn.endswith("ApplyReaction")):
        return int_valued_fact(e)
    return None


def g_nonneg(I, o, e, i):
    if not is_gillespie(o):
        return None
    return e >= 0


def sto_fact(I, o, e, i):
    return e >= -z3.Select(o.fields["sub"].arr, i)


def more_elem_facts():
    return {"mesh_kr": nonneg, "mesh_kd": nonneg, "mesh_kd_out": nonneg, "mesh_kd_in": nonneg,
            "sub": nonneg_int, "sto": sto_fact, "mesh_x": x_fact,
            "mesh_ar": g_nonneg, "mesh_ad": g_nonneg, "mesh_a0r": g_nonneg, "mesh_a0d": g_nonneg,
            "mesh_vol": pos, "mesh_neighbor_sfc": pos, "mesh_neighbor_dst": pos,
            # ABI facts on Init's parameters
            "k": nonneg, "D": nonneg}


def _sstar(I, o):
    g = getattr(I, "ghost", None)
    if g is None:
        I.ghost = g = {}
    if "sstar" not in g:
        s = z3.Int(I.c.fresh("sstar"))
        I.c.assume(z3.And(s >= 0, s < o.fields["n_species"]))
        g["sstar"] = s
    return g["sstar"]


def enough_reactant(o, cell, species, reaction, xarr=None):
    f = o.fields
    xa = xarr if xarr is not None else f["mesh_x"].arr
    return z3.Select(xa, cell * f["n_species"] + species) >= z3.Select(f["sub"].arr, species * f["n_reactions"] + reaction)


def chk_nonneg(I, o, fr, v, idx):
    return v >= 0


def chk_g_nonneg(I, o, fr, v, idx):
    if not is_gillespie(o):
        return None
    return v >= 0


def chk_mesh_ar(I, o, fr, v, idx):
    if not is_gillespie(o):
        return None
    i = _isn(I, fr, ("i",))
    r = _isn(I, fr, ("r",))
    if i is None or r is None:
        return z3.BoolVal(False)
    return z3.And(v >= 0, z3.Implies(v > 0, enough_reactant(o, i, _sstar(I, o), r)))


def chk_mesh_x(I, o, fr, v, idx):
    """Gillespie: every write keeps the state a vector of non-negative integers.  In ApplyReaction the
    instance (this cell, this species, this reaction) of the ghost invariant of mesh_ar is a hypothesis."""
    if not is_gillespie(o):
        return None
    goal = v >= 0
    if getattr(I, "check_integrality", False):
        goal = z3.And(goal, int_valued_goal(v, I.c))
    if fr.fn.endswith("ApplyReaction"):
        mi = _isn(I, fr, ("mesh_index",))
        ri = _isn(I, fr, ("reaction_index",))
        s = _isn(I, fr, ("s",))
        pre = getattr(I, "ghost", {}).get("x_pre_apply_reaction")
        if mi is None or ri is None or s is None or pre is None:
            return z3.BoolVal(False)
        f = o.fields
        ar = z3.Select(f["mesh_ar"].arr, mi * f["n_reactions"] + ri)
        # ground instance (j = this entry) of the loop invariant "entries not reached yet are unchanged":
        # implied by the quantified invariant in the path condition, stated here to spare the solver the
        # instantiation
        k = mi * f["n_species"] + s
        inst = z3.Select(f["mesh_x"].arr, k) == z3.Select(pre, k)
        return z3.Implies(z3.And(inst, z3.Implies(ar > 0, enough_reactant(o, mi, s, ri, pre))), goal)
    return goal


def more_store_checks():
    return {"mesh_kr": chk_nonneg, "mesh_kd": chk_nonneg, "mesh_kd_out": chk_nonneg, "mesh_kd_in": chk_nonneg,
            "mesh_ar": chk_mesh_ar, "mesh_ad": lambda I, o, fr, v, idx: _conj(chk_g_nonneg(I, o, fr, v, idx),
                                                                              _diffusion_needs_a_molecule(I, o, fr, v, idx)), "mesh_a0r": chk_g_nonneg, "mesh_a0d": chk_g_nonneg,
            "mesh_x": chk_mesh_x}


def inv_a0(I, fr, stage):
    if not is_gillespie(fr.this):
        return []
    return [_f(fr)["a0"] >= 0]


def inv_reaction_prop(I, fr, stage):
    a = I.local_by_name(fr, "a")
    s = I.local_by_name(fr, "s")
    mi = I.local_by_name(fr, "mesh_index")
    ri = I.local_by_name(fr, "reaction_index")
    if a is None or s is None or mi is None or ri is None:
        return [z3.BoolVal(False)]
    out = [a >= 0]
    if is_gillespie(fr.this):
        ss = _sstar(I, fr.this)
        out.append(z3.Implies(z3.And(s > ss, a > 0), enough_reactant(fr.this, mi, ss, ri)))
    return out


def inv_apply_reaction(I, fr, stage):
    """entries of the state that the loop has not reached yet are still the ones the propensities were
    computed from"""
    o = fr.this
    if not is_gillespie(o):
        return []
    f = o.fields
    if stage == "init":
        I.ghost = getattr(I, "ghost", {})
        I.ghost["x_pre_apply_reaction"] = f["mesh_x"].arr
    pre = I.ghost["x_pre_apply_reaction"]
    mi = I.local_by_name(fr, "mesh_index")
    s = I.local_by_name(fr, "s")
    j = z3.Int("j!q")
    return [z3.ForAll([j], z3.Implies(z3.Or(j >= mi * f["n_species"] + s, j < mi * f["n_species"]),
                                      z3.Select(f["mesh_x"].arr, j) == z3.Select(pre, j)))]


LOOP_INV.update({
    ("ComputePropensities", 1): inv_a0, ("ComputePropensities", 2): inv_a0,
    ("ComputePropensities", 3): inv_a0, ("ComputePropensities", 4): inv_a0,
    ("ReactionProp", 1): inv_reaction_prop, ("ReactionProp", 2): inv_reaction_prop,
    ("ApplyReaction", 1): inv_apply_reaction,
})


# ---------------------------------------------------------------------------
# termination: counted loops (for v = a; v < b; v++ with b and v not assigned in the body) have the variant
# b - v automatically; the others need one
def var_sample_on_tsample(I, fr):
    f = _f(fr)
    return f["n_samples"] - f["sample_pos"]


def var_gsd_correction(I, fr):
    d = I.local_by_name(fr, "delta")
    dc = I.local_by_name(fr, "delta_count")
    return d - dc


LOOP_VARIANT = {
    ("SampleOnTSample", 1): var_sample_on_tsample,
    ("GenerateStochasticDistribution", 9): var_gsd_correction,
}
