"""Loads clang's typed AST (JSON) of engine.cpp for the functions and classes of the engine.

Every run calls  clang++ -std=c++11 -fsyntax-only -Xclang -ast-dump=json -Xclang -ast-dump-filter=<name>
on $VERIF_REPO/src/strengths/engines/strengths_engine/src/engine.cpp (which includes the .hpp
files), so the text analysed is the working tree as it is now.  Dropped: everything of libstdc++
(replaced by contracts in interp.py) and the CPYEMVER block (not compiled without the macro).
"""
import json
import os
import subprocess
import concurrent.futures as cf

REPO = os.environ.get("VERIF_REPO", "/repo")
SRC_DIR = "src/strengths/engines/strengths_engine/src"
FILTERS = ["SimulationAlgorithm3DBase", "SimulationAlgorithmGraphBase", "Euler3D", "EulerGraph",
           "Gillespie3D", "GillespieGraph", "TauLeap3D", "TauLeapGraph",
           "GenerateStochasticDistribution", "engineexport_", "MkVec", "SpeciesFirstToMeshFirstArray",
           "CompareStr", "global_"]


def _dump(flt, repo):
    src = os.path.join(repo, SRC_DIR, "engine.cpp")
    p = subprocess.run(["clang++", "-std=c++11", "-fsyntax-only", "-Xclang", "-ast-dump=json",
                        "-Xclang", "-ast-dump-filter=" + flt, src],
                       capture_output=True, text=True, cwd=os.path.join(repo, SRC_DIR))
    if p.returncode != 0 and not p.stdout.strip():
        raise RuntimeError("clang failed on %s: %s" % (flt, p.stderr[-2000:]))
    objs = []
    dec = json.JSONDecoder()
    txt = p.stdout
    i = 0
    while i < len(txt):
        while i < len(txt) and txt[i].isspace():
            i += 1
        if i >= len(txt):
            break
        o, i = dec.raw_decode(txt, i)
        objs.append(o)
    return flt, objs, p.stderr


class Program:
    def __init__(self, repo=None):
        self.repo = repo or os.environ.get("VERIF_REPO", "/repo")
        self.by_id = {}
        self.classes = {}      # name -> {"node":..., "fields": [(name,type)], "methods": {name: node}, "bases": []}
        self.functions = {}    # name -> [nodes]  (free functions, incl. template instantiations)
        self.globals = {}      # name -> VarDecl node
        self.stats = {"functions": 0, "loops": 0, "subscripts": 0}
        self.compile_errors = ""
        self._load()

    def _load(self):
        with cf.ThreadPoolExecutor(8) as ex:
            res = list(ex.map(lambda f: _dump(f, self.repo), FILTERS))
        for flt, objs, err in res:
            if "error:" in err:
                self.compile_errors += err
            for o in objs:
                self._annotate(o, [0], [""])
                self._index(o)

    def _annotate(self, n, line, file):
        if not isinstance(n, dict):
            return
        for key in ("loc", "range"):
            loc = n.get(key)
            if isinstance(loc, dict):
                b = loc.get("begin", loc)
                if isinstance(b, dict):
                    if "expansionLoc" in b:
                        b = b["expansionLoc"]
                    if "file" in b:
                        file[0] = os.path.basename(b["file"])
                    if "line" in b:
                        line[0] = b["line"]
        n["_line"] = line[0]
        n["_file"] = file[0]
        for c in n.get("inner", []):
            self._annotate(c, line, file)

    def _index(self, n, cls=None):
        if not isinstance(n, dict) or "kind" not in n:
            return
        k = n["kind"]
        if "id" in n:
            self.by_id[n["id"]] = n
        if k == "CXXRecordDecl" and n.get("completeDefinition") or (k == "CXXRecordDecl" and n.get("inner")):
            name = n.get("name")
            if name and (name not in self.classes or not self.classes[name]["methods"]):
                c = {"node": n, "fields": [], "methods": {}, "bases": [b["type"]["qualType"] for b in n.get("bases", [])]}
                for m in n.get("inner", []):
                    if m.get("kind") == "FieldDecl":
                        c["fields"].append((m["name"], m["type"]["qualType"]))
                    elif m.get("kind") in ("CXXMethodDecl", "CXXConstructorDecl", "CXXDestructorDecl"):
                        m["_class"] = name
                        if m.get("kind") == "CXXMethodDecl" and any(x.get("kind") == "CompoundStmt" for x in m.get("inner", [])):
                            c["methods"][m["name"]] = m
                            self.stats["functions"] += 1
                self.classes[name] = c
            for m in n.get("inner", []):
                self._index(m, name)
            return
        if k == "FunctionTemplateDecl":
            # index the instantiations only (the dependent pattern has no TemplateArgument children)
            for c in n.get("inner", []):
                if c.get("kind") == "FunctionDecl" and any(x.get("kind") == "TemplateArgument" for x in c.get("inner", [])):
                    self._index(c, cls)
            return
        if k == "FunctionDecl" and any(x.get("kind") == "CompoundStmt" for x in n.get("inner", [])):
            self.functions.setdefault(n["name"], []).append(n)
            self.stats["functions"] += 1
            self._number_loops(n)
        if k == "CXXMethodDecl":
            self._number_loops(n)
        if k == "VarDecl" and cls is None and n.get("name", "").startswith("global_"):
            self.globals[n["name"]] = n
        if k in ("ForStmt", "WhileStmt"):
            self.stats["loops"] += 1
        for c in n.get("inner", []):
            self._index(c, cls)

    def _number_loops(self, fn):
        """loops of a function are numbered in source order (keys of the sidecar loop invariants)"""
        cnt = [0]

        def walk(n):
            if not isinstance(n, dict):
                return
            if n.get("kind") in ("ForStmt", "WhileStmt"):
                cnt[0] += 1
                n["_loop_ord"] = cnt[0]
            for c in n.get("inner", []):
                walk(c)
        walk(fn)

    # ------------------------------------------------------------------
    def method(self, cls, name):
        """method `name` as seen from class `cls` (own or inherited)"""
        c = self.classes[cls]
        if name in c["methods"]:
            return c["methods"][name], cls
        for b in c["bases"]:
            b = b.replace("class ", "")
            if b in self.classes:
                r = self.method(b, name)
                if r:
                    return r
        return None

    def all_fields(self, cls):
        out = []
        for b in self.classes[cls]["bases"]:
            b = b.replace("class ", "")
            if b in self.classes:
                out += self.all_fields(b)
        return out + self.classes[cls]["fields"]

    def body(self, fn):
        for x in fn.get("inner", []):
            if x.get("kind") == "CompoundStmt":
                return x
        return None

    def params(self, fn):
        return [x for x in fn.get("inner", []) if x.get("kind") == "ParmVarDecl"]
