"""Symbolic interpreter of the C++ subset used by the engine, over clang's typed AST.

Values:  int / bool / double  -> z3 Int / Bool / Real (A1: mathematical; int range is assumption A9)
         std::vector<T>       -> Vec(kind, n, arr)        length term + z3 array
         vector<vector<T>>    -> Vec2(kind, n, lens, arr)  array of arrays + row lengths
         T*  (ABI buffers)    -> Ptr(kind, n, arr)         n = length promised by the ABI precondition
         class objects        -> Obj(cls, fields, alive)
Run-time-error obligations are generated, not written: every vector / buffer subscript 0 <= i < size,
integer division and modulo (divisor != 0), delete of a live object, reads of uninitialised scalars,
documented preconditions of library calls (poisson_distribution mean > 0, normal_distribution stddev > 0).
Loops are cut by invariants: automatic counter bounds + registered content invariants; the variables
and arrays assigned in the body are havocked (lengths are kept unless resize/push_back/clear/assignment
occurs in the body).
"""
import z3
from ..core.ctx import Ctx, Unsupported, PathAbort
from ..core.proxies import PYDIV, PYMOD, divmod_fact, root_fn, root_fact

CPOW = z3.Function("cpow", z3.RealSort(), z3.RealSort(), z3.RealSort())
CLOG = z3.Function("clog", z3.RealSort(), z3.RealSort())
CSQRT = z3.Function("csqrt", z3.RealSort(), z3.RealSort())


class BreakEx(Exception):
    pass


class ContinueEx(Exception):
    pass


class ReturnEx(Exception):
    def __init__(self, value):
        self.value = value


class Undef:
    """uninitialised scalar"""

    def __init__(self, kind):
        self.kind = kind


class Vec:
    def __init__(self, kind, n, arr):
        self.kind, self.n, self.arr = kind, n, arr

    def copy(self):
        return Vec(self.kind, self.n, self.arr)


class Vec2:
    def __init__(self, kind, n, lens, arr):
        self.kind, self.n, self.lens, self.arr = kind, n, lens, arr

    def copy(self):
        return Vec2(self.kind, self.n, self.lens, self.arr)


class Ptr:
    def __init__(self, kind, n, arr, name=""):
        self.kind, self.n, self.arr, self.name = kind, n, arr, name


class Obj:
    def __init__(self, cls, fields=None):
        self.cls = cls
        self.fields = fields if fields is not None else {}
        self.alive = z3.BoolVal(True)


class ObjPtr:
    """pointer to an algorithm object: obj may be None (never assigned)"""

    def __init__(self, obj, cls):
        self.obj, self.cls = obj, cls


class Opaque:
    def __init__(self, tag, *args):
        self.tag, self.args = tag, args


class Str:
    """const char* / std::string: one of the string literals of the program or a symbolic one"""

    def __init__(self, z):
        self.z = z          # z3 Int code


SORT = {"int": z3.IntSort(), "real": z3.RealSort(), "bool": z3.BoolSort()}


def norm_type(t):
    t = t.replace("const ", "").replace("class ", "").replace("struct ", "").strip()
    t = t.replace("> >", ">>").replace(" &", "").replace("&", "").strip()
    return t


def kind_of_type(t):
    t = norm_type(t)
    if t in ("int", "size_t", "std::size_t", "unsigned long", "long", "unsigned int", "std::vector::size_type",
             "std::vector<int>::size_type", "std::vector<double>::size_type", "std::vector<int>::value_type") \
            or t.endswith("size_type"):
        return "int"
    if t in ("double", "float") or t.endswith("value_type") or t.endswith("::reference") or t.endswith("result_type"):
        return "real"
    if t == "bool":
        return "bool"
    return None


class Frame:
    def __init__(self, fn_name, this=None):
        self.fn = fn_name
        self.this = this
        self.locals = {}
        self.names = {}
        self.loops = 0
        self.decl_seq = {}
        self.decl_count = 0
        self.unsigned = set()     # locals of an unsigned type: value >= 0 is a type invariant


class Ref:
    def __init__(self, get, set_):
        self.get, self.set = get, set_


class Interp:
    def __init__(self, prog, ctx, prop="C11", loop_inv=None, elem_facts=None, strict_uninit=True):
        self.prog = prog
        self.c = ctx
        self.prop = prop
        self.loop_inv = loop_inv or {}
        self.elem_facts = elem_facts or {}      # field name -> fn(interp, obj, elem z3, idx z3) -> z3 Bool
        self.globals = {}
        self.strlits = {}
        self.nfresh = 0
        self.calls = []
        self.depth = 0
        self.rte_count = 0
        self.trace = []          # ghost trace of selected events (samples, poisson calls...)
        self.effects = {"reads": set(), "writes": set(), "externals": set()}
        self.generators = []

    # ------------------------------------------------------------------ helpers
    def fresh(self, base, kind):
        name = self.c.fresh(base)
        if kind == "int":
            return z3.Int(name)
        if kind == "bool":
            return z3.Bool(name)
        return z3.Real(name)

    def fresh_arr(self, base, kind):
        return z3.Array(self.c.fresh(base), z3.IntSort(), SORT[kind])

    def fresh_vec(self, base, kind, n=None):
        if n is None:
            n = self.fresh(base + "_n", "int")
            self.c.assume(n >= 0)
        return Vec(kind, n, self.fresh_arr(base, kind))

    def strcode(self, s):
        if s not in self.strlits:
            self.strlits[s] = len(self.strlits) + 1
        return z3.IntVal(self.strlits[s])

    def where(self, node, fr):
        return "%s/%s:%s" % (fr.fn, node.get("_file", "?"), node.get("_line", "?"))

    def rte(self, cond, what, node, fr):
        self.rte_count += 1
        self.c.oblige("%s/%s/%s" % (self.prop, self.where(node, fr), what), cond, "rte")
        # continue under the assumption that the operation was legal
        self.c.assume(cond)

    def default_value(self, t):
        t0 = norm_type(t)
        k = kind_of_type(t0)
        if k:
            return Undef(k)
        if t0.startswith("std::vector<std::vector<"):
            inner = t0[len("std::vector<std::vector<"):].split(">")[0]
            kk = kind_of_type(inner) or "real"
            return Vec2(kk, z3.IntVal(0), z3.K(z3.IntSort(), z3.IntVal(0)),
                        z3.K(z3.IntSort(), z3.K(z3.IntSort(), z3.IntVal(0) if kk == "int" else z3.RealVal(0))))
        if t0.startswith("std::vector<"):
            inner = t0[len("std::vector<"):].rsplit(">", 1)[0]
            kk = kind_of_type(inner) or "real"
            return Vec(kk, z3.IntVal(0), z3.K(z3.IntSort(), z3.IntVal(0) if kk == "int" else z3.RealVal(0)))
        if "mt19937" in t0 or "mersenne" in t0:
            return Opaque("rng")
        if "distribution" in t0:
            return Opaque("dist")
        if t0.endswith("*"):
            return ObjPtr(None, t0[:-1].strip())
        return Opaque("object:" + t0)

    def new_object(self, cls):
        o = Obj(cls)
        for (name, t) in self.prog.all_fields(cls):
            o.fields[name] = self.default_value(t)
        return o

    # ------------------------------------------------------------------ reading scalars
    def rv(self, v, node, fr, what="value"):
        if isinstance(v, Undef):
            self.rte(z3.BoolVal(False), "read-of-uninitialised-" + what, node, fr)
            return self.fresh("undef", v.kind)
        return v

    def to_real(self, z):
        if z3.is_int(z):
            return z3.ToReal(z)
        if z3.is_bool(z):
            return z3.If(z, z3.RealVal(1), z3.RealVal(0))
        return z

    def to_int(self, z):
        if z3.is_bool(z):
            return z3.If(z, z3.IntVal(1), z3.IntVal(0))
        if z3.is_real(z):
            # C++ conversion truncates toward zero; of an integer-valued double it is the value itself
            if getattr(self, "int_terms", False):
                from .contracts import int_term
                t = int_term(z, self.c)
                if t is not None:
                    return t
            return z3.If(z >= 0, z3.ToInt(z), -z3.ToInt(-z))
        return z

    def to_bool(self, z):
        if z3.is_bool(z):
            return z
        return z != 0

    def coerce(self, z, kind):
        if kind == "int":
            return self.to_int(z)
        if kind == "real":
            return self.to_real(z)
        if kind == "bool":
            return self.to_bool(z)
        return z

    # ------------------------------------------------------------------ statements
    def exec_block(self, stmts, fr):
        for s in stmts:
            self.exec(s, fr)

    def exec(self, n, fr):
        k = n.get("kind")
        if k is None:
            return
        m = getattr(self, "s_" + k, None)
        if m is None:
            # expression statement
            self.ev(n, fr)
            return
        m(n, fr)

    def s_CompoundStmt(self, n, fr):
        self.exec_block(n.get("inner", []), fr)

    def s_NullStmt(self, n, fr):
        pass

    def s_DeclStmt(self, n, fr):
        for d in n.get("inner", []):
            if d["kind"] != "VarDecl":
                continue
            init = d.get("inner", [])
            t = d["type"]["qualType"]
            if d.get("storageClass") == "static":
                # a function-local static keeps state between calls: outside the model (treated as a fresh local) -> flagged
                self.effects["externals"].add("static-local:" + str(d.get("name")))
                if getattr(self, "flag_statics", False):
                    self.c.oblige("%s/%s/no-function-local-static (state that survives the call and the simulation)" %
                                  (self.prop, self.where(n, fr)), z3.BoolVal(False), "ensures")
                    raise PathAbort("function-local static")
                raise Unsupported("function-local static %s at %s: state outside the object" % (d.get("name"), self.where(n, fr)))
            if init and init[0].get("kind"):
                v = self.ev(init[0], fr)
                k = kind_of_type(t)
                if k and z3.is_expr(v):
                    v = self.coerce(v, k)
                if isinstance(v, (Vec, Vec2)):
                    v = v.copy()
            else:
                v = self.default_value(t)
            fr.locals[d["id"]] = v
            fr.names[d["id"]] = d.get("name")
            fr.decl_count += 1
            fr.decl_seq[d["id"]] = fr.decl_count      # the most recently declared variable of a name is the one in scope
            if t in ("size_t", "std::size_t", "unsigned long", "unsigned int", "unsigned"):
                fr.unsigned.add(d["id"])

    def s_IfStmt(self, n, fr):
        inner = n["inner"]
        cond = self.to_bool(self.ev(inner[0], fr))
        if self.c.branch(cond):
            self.exec(inner[1], fr)
        elif len(inner) > 2:
            self.exec(inner[2], fr)

    def s_ReturnStmt(self, n, fr):
        inner = n.get("inner", [])
        v = self.ev(inner[0], fr) if inner and inner[0].get("kind") else None
        raise ReturnEx(v)

    def s_BreakStmt(self, n, fr):
        raise BreakEx()

    def s_ContinueStmt(self, n, fr):
        raise ContinueEx()

    def s_SwitchStmt(self, n, fr):
        inner = n["inner"]
        val = self.to_int(self.ev(inner[0], fr))
        body = inner[1].get("inner", [])
        # find the case that matches: each case chosen by branching
        started = False
        try:
            for st in body:
                if st.get("kind") == "CaseStmt":
                    if not started:
                        cv = self.ev(st["inner"][0], fr)
                        if self.c.branch(val == cv):
                            started = True
                    if started:
                        sub = st["inner"][-1]
                        self.exec(sub, fr)
                elif st.get("kind") == "DefaultStmt":
                    started = True
                    self.exec(st["inner"][-1], fr)
                elif started:
                    self.exec(st, fr)
        except BreakEx:
            pass

    # ---- loops ---------------------------------------------------------------
    def s_ForStmt(self, n, fr):
        init, _, cond, inc, body = n["inner"]
        if init.get("kind"):
            self.exec(init, fr)
        self.loop(n, cond, inc, body, fr)

    def s_WhileStmt(self, n, fr):
        inner = [x for x in n["inner"]]
        cond, body = inner[-2], inner[-1]
        self.loop(n, cond, None, body, fr)

    def loop(self, n, cond, inc, body, fr):
        fr.loops += 1
        ordn = n.get("_loop_ord", fr.loops)
        key = (fr.fn.split("::")[-1], ordn)
        P = "%s/%s/loop%d" % (self.prop, fr.fn, ordn)
        mods = self.modset([body] + ([inc] if inc and inc.get("kind") else []), fr)
        counter = self.counter_info(n, cond, inc, fr, mods)
        inv_fn = self.loop_inv.get(key)

        def invariant(stage):
            out = []
            if counter:
                out.append(counter["inv"](self, fr))
            if inv_fn:
                try:
                    out += inv_fn(self, fr, stage)
                except (z3.Z3Exception, TypeError, AttributeError):
                    # the invariant mentions a scalar that the code has left uninitialised at this point: that is a
                    # read of indeterminate state by anything relying on the invariant -> reported as an obligation
                    unset = sorted(k for k, v in (fr.this.fields.items() if fr.this is not None else []) if isinstance(v, Undef))
                    if not unset:
                        raise
                    self.c.oblige("%s/state-the-invariant-speaks-about-is-initialised (unset: %s)" % (P, ", ".join(unset)),
                                  z3.BoolVal(False), "ensures")
                    raise PathAbort("invariant over uninitialised state")
            return out

        # initiation
        for k_, f in enumerate(invariant("init")):
            self.c.oblige("%s/invariant-holds-on-entry.%d" % (P, k_), f, "ensures")
        # arbitrary iteration
        self.havoc(mods, fr)
        for f in invariant("assume"):
            self.c.assume(f)
        has_cond = cond is not None and cond.get("kind")
        cz = self.to_bool(self.ev(cond, fr)) if has_cond else z3.BoolVal(True)
        variant_fn = getattr(self, "loop_variant", {}).get(key)
        self.loops_seen = getattr(self, "loops_seen", {})
        self.loops_seen[(fr.fn, ordn)] = "counted" if counter else ("variant" if variant_fn else "none")
        if self.c.branch(cz):
            saved_loops = fr.loops
            v0 = variant_fn(self, fr) if variant_fn else None
            try:
                try:
                    self.exec(body, fr)
                except ContinueEx:
                    pass
                if inc is not None and inc.get("kind"):
                    self.ev(inc, fr)
            except BreakEx:
                # leaving through break: state after the loop is the current one
                fr.loops = max(fr.loops, saved_loops)
                return
            # vacuity guard: a path condition that became inconsistent inside the body (an assumed contract fact that
            # contradicts the code) would make every obligation below hold trivially: recorded, reported by the runner
            if self.c.solver.check() == z3.unsat:
                # (an infeasible path that the solver could not refute earlier also ends here: the runner reports a loop
                # only when NO path reaches the end of its body with a consistent path condition)
                self.c.vacuous = getattr(self.c, "vacuous", [])
                self.c.vacuous.append(P)
                raise PathAbort("inconsistent path condition at the end of a loop body")
            self.c.loop_ok = getattr(self.c, "loop_ok", [])
            self.c.loop_ok.append(P)
            for k_, f in enumerate(invariant("preserve")):
                self.c.oblige("%s/invariant-preserved.%d" % (P, k_), f, "ensures")
            if variant_fn:
                v1 = variant_fn(self, fr)
                self.c.oblige("%s/variant-decreases-and-is-bounded" % P, z3.And(v1 < v0, v0 > 0), "ensures")
            elif not counter and getattr(self, "require_variants", False):
                self.c.oblige("%s/has-a-variant" % P, z3.BoolVal(False), "ensures",
                              "loop is neither counted nor given a variant")
            raise PathAbort("end of arbitrary loop iteration")
        # exit: continue after the loop (state = havocked state + invariant + not cond)
        if not has_cond:
            raise PathAbort("for(;;) left only by break")

    def counter_info(self, n, cond, inc, fr, mods):
        """for (int v = a; v < b; v++) with b not modified in the body:  a <= v  and  (a <= b -> v <= b)"""
        if n["kind"] != "ForStmt":
            return None
        init = n["inner"][0]
        if not (init.get("kind") == "DeclStmt" and len(init["inner"]) == 1 and init["inner"][0]["kind"] == "VarDecl"):
            return None
        var = init["inner"][0]
        vid = var["id"]
        if not (cond and cond.get("kind") == "BinaryOperator" and cond.get("opcode") == "<"):
            return None
        lhs = self.strip(cond["inner"][0])
        if not (lhs.get("kind") == "DeclRefExpr" and lhs["referencedDecl"]["id"] == vid):
            return None
        if not (inc and inc.get("kind") == "UnaryOperator" and inc.get("opcode") == "++"):
            return None
        # the counter must not be assigned in the body, nor the bound
        body = n["inner"][4]
        if ("l", vid) in self.modset([body], fr):
            return None
        bound_node = cond["inner"][1]
        for loc in self.reads(bound_node, fr):
            if loc in mods:
                return None
        a0 = fr.locals[vid]
        if isinstance(a0, Undef):
            return None
        a0 = self.to_int(a0)

        def inv(self_, fr_):
            v = self_.to_int(fr_.locals[vid])
            b = self_.ev(bound_node, fr_, pure=True)
            if z3.is_real(b):
                # the bound is a double: the counter stops at the first integer >= b
                return z3.And(v >= a0, z3.Implies(z3.ToReal(a0) < b, z3.ToReal(v) < b + 1))
            b = self_.to_int(b)
            return z3.And(v >= a0, z3.Implies(a0 <= b, v <= b))
        return {"inv": inv, "variant": True, "var": vid}

    def strip(self, n):
        while n.get("kind") in ("ImplicitCastExpr", "ParenExpr", "ExprWithCleanups", "MaterializeTemporaryExpr",
                                "CXXBindTemporaryExpr", "ConstantExpr", "CXXFunctionalCastExpr",
                                "CXXStaticCastExpr") and n.get("inner"):
            n = n["inner"][0]
        return n

    # ---- modified / read sets (syntactic, transitive through calls of own methods) ---------------
    def root_loc(self, n, fr):
        """location key of the variable an lvalue expression is rooted in, and whether the
        access goes through an element"""
        n = self.strip(n)
        k = n.get("kind")
        if k == "DeclRefExpr":
            d = n["referencedDecl"]
            if d.get("kind") in ("VarDecl", "ParmVarDecl"):
                if d["id"] in fr.locals or d["id"] not in self.prog.by_id or d.get("name", "").startswith("global_") is False:
                    if d.get("name", "").startswith("global_"):
                        return ("g", d["name"])
                    return ("l", d["id"])
                return ("g", d["name"])
            return None
        if k == "MemberExpr":
            base = self.strip(n["inner"][0])
            if base.get("kind") == "CXXThisExpr":
                return ("f", n["name"])
            return self.root_loc(base, fr)
        if k == "CXXOperatorCallExpr" and len(n["inner"]) >= 2:
            return self.root_loc(n["inner"][1], fr)
        if k == "ArraySubscriptExpr":
            return self.root_loc(n["inner"][0], fr)
        if k == "UnaryOperator" and n.get("opcode") == "*":
            return self.root_loc(n["inner"][0], fr)
        return None

    def modset(self, nodes, fr, seen=None):
        out = set()
        seen = seen if seen is not None else set()
        stack = list(nodes)
        while stack:
            n = stack.pop()
            if not isinstance(n, dict) or "kind" not in n:
                continue
            k = n["kind"]
            if k in ("BinaryOperator",) and n.get("opcode") == "=" or k == "CompoundAssignOperator":
                loc = self.root_loc(n["inner"][0], fr)
                if loc:
                    out.add(loc)
            elif k == "UnaryOperator" and n.get("opcode") in ("++", "--"):
                loc = self.root_loc(n["inner"][0], fr)
                if loc:
                    out.add(loc)
            elif k == "CXXOperatorCallExpr":
                callee = self.callee_name(n)
                if callee == "operator=":
                    loc = self.root_loc(n["inner"][1], fr)
                    if loc:
                        out.add(loc)
                        out.add(("len",) + loc)
            elif k == "CXXMemberCallExpr":
                me = self.strip(n["inner"][0])
                name = me.get("name")
                if name in ("resize", "clear", "push_back"):
                    loc = self.root_loc(me["inner"][0], fr)
                    recv = self.strip(me["inner"][0])
                    if loc:
                        out.add(loc)
                        if recv.get("kind") == "CXXOperatorCallExpr":
                            out.add(("rowlen",) + loc)       # a row of a vector<vector>: outer length kept
                        else:
                            out.add(("len",) + loc)
                else:
                    target = None
                    if fr.this is not None and name:
                        r = self.prog.method(fr.this.cls, name)
                        target = r[0] if r else None
                    if target is not None and target["id"] not in seen:
                        seen.add(target["id"])
                        b = self.prog.body(target)
                        if b:
                            sub = self.modset([b], fr, seen)
                            out |= {x for x in sub if x[0] in ("f", "g") or (x[0] in ("len", "rowlen") and x[1] in ("f", "g"))}
            elif k == "DeclStmt":
                for d in n.get("inner", []):
                    if d.get("kind") == "VarDecl":
                        out.add(("l", d["id"]))
            stack.extend(n.get("inner", []))
        return out

    def reads(self, node, fr):
        out = set()
        stack = [node]
        while stack:
            n = stack.pop()
            if not isinstance(n, dict) or "kind" not in n:
                continue
            loc = None
            if n["kind"] == "DeclRefExpr" and n["referencedDecl"].get("kind") in ("VarDecl", "ParmVarDecl"):
                loc = self.root_loc(n, fr)
            elif n["kind"] == "MemberExpr":
                loc = self.root_loc(n, fr)
            if loc:
                out.add(loc)
            stack.extend(n.get("inner", []))
        return out

    def resolve_method(self, fn, fr):
        """virtual dispatch on the dynamic class of `this`"""
        if fn is None:
            return None
        if fr.this is not None and fn.get("kind") == "CXXMethodDecl":
            r = self.prog.method(fr.this.cls, fn["name"])
            if r:
                return r[0]
        if self.prog.body(fn):
            return fn
        return None

    def havoc(self, mods, fr):
        for loc in mods:
            if loc[0] in ("len", "rowlen"):
                continue
            lenchg = (("len",) + loc) in mods
            if (("rowlen",) + loc) in mods and not lenchg:
                lenchg = "rows"
            if loc[0] == "l":
                if loc[1] not in fr.locals:
                    continue
                fr.locals[loc[1]] = self.havoc_value(fr.locals[loc[1]], "h_l", lenchg)
                if loc[1] in fr.unsigned and z3.is_expr(fr.locals[loc[1]]):
                    self.c.assume(fr.locals[loc[1]] >= 0)
            elif loc[0] == "f":
                if fr.this is None or loc[1] not in fr.this.fields:
                    continue
                fr.this.fields[loc[1]] = self.havoc_value(fr.this.fields[loc[1]], "h_" + loc[1], lenchg)
            elif loc[0] == "g":
                if loc[1] in self.globals:
                    self.globals[loc[1]] = self.havoc_value(self.globals[loc[1]], "h_" + loc[1], lenchg)

    def havoc_value(self, v, base, lenchg):
        if isinstance(v, Undef):
            return self.fresh(base, v.kind)
        if isinstance(v, Vec):
            if lenchg and lenchg != "rows":
                return self.fresh_vec(base, v.kind)
            return Vec(v.kind, v.n, self.fresh_arr(base, v.kind))
        if isinstance(v, Vec2):
            if lenchg == "rows":
                n = v.n
                lens = z3.Array(self.c.fresh(base + "_lens"), z3.IntSort(), z3.IntSort())
            elif lenchg:
                n = self.fresh(base + "_n", "int")
                self.c.assume(n >= 0)
                lens = z3.Array(self.c.fresh(base + "_lens"), z3.IntSort(), z3.IntSort())
            else:
                n, lens = v.n, v.lens
            arr = z3.Array(self.c.fresh(base), z3.IntSort(), z3.ArraySort(z3.IntSort(), SORT[v.kind]))
            return Vec2(v.kind, n, lens, arr)
        if isinstance(v, Ptr):
            return Ptr(v.kind, v.n, self.fresh_arr(base, v.kind), v.name)
        if z3.is_expr(v):
            if z3.is_int(v):
                return self.fresh(base, "int")
            if z3.is_bool(v):
                return self.fresh(base, "bool")
            return self.fresh(base, "real")
        return v

    # ------------------------------------------------------------------ expressions
    def callee_name(self, n):
        x = self.strip(n["inner"][0])
        if x.get("kind") == "DeclRefExpr":
            return x["referencedDecl"].get("name")
        if x.get("kind") == "MemberExpr":
            return x.get("name")
        return None

    def ev(self, n, fr, pure=False):
        k = n.get("kind")
        m = getattr(self, "e_" + k, None)
        if m is None:
            raise Unsupported("C++ construct %s at %s" % (k, self.where(n, fr)))
        return m(n, fr)

    def lv(self, n, fr):
        k = n.get("kind")
        m = getattr(self, "l_" + k, None)
        if m is None:
            raise Unsupported("C++ lvalue %s at %s" % (k, self.where(n, fr)))
        return m(n, fr)

    # ---- literals -------------------------------------------------------------
    def e_IntegerLiteral(self, n, fr):
        return z3.IntVal(int(n["value"]))

    def e_FloatingLiteral(self, n, fr):
        from fractions import Fraction
        v = n["value"]
        f = Fraction(v)
        x = float(v)
        for den in (1, 2, 3, 10, 100):
            g = Fraction(x).limit_denominator(den)
            if float(g) == x:
                f = g
                break
        return z3.RealVal(str(f))

    def e_CXXBoolLiteralExpr(self, n, fr):
        return z3.BoolVal(bool(n["value"]))

    def e_StringLiteral(self, n, fr):
        s = n["value"]
        if s.startswith('"') and s.endswith('"'):
            s = s[1:-1]
        return Str(self.strcode(s))

    # ---- transparent wrappers ---------------------------------------------------
    def _inner(self, n, fr):
        return self.ev(n["inner"][0], fr)

    e_ParenExpr = _inner
    e_ExprWithCleanups = _inner
    e_MaterializeTemporaryExpr = _inner
    e_CXXBindTemporaryExpr = _inner
    e_ConstantExpr = _inner

    def e_CXXDefaultArgExpr(self, n, fr):
        raise Unsupported("default argument at %s" % self.where(n, fr))

    def _linner(self, n, fr):
        return self.lv(n["inner"][0], fr)

    l_ParenExpr = _linner
    l_ExprWithCleanups = _linner
    l_MaterializeTemporaryExpr = _linner
    l_CXXBindTemporaryExpr = _linner

    def l_ImplicitCastExpr(self, n, fr):
        return self.lv(n["inner"][0], fr)

    def e_ImplicitCastExpr(self, n, fr):
        ck = n.get("castKind")
        sub = n["inner"][0]
        if ck == "LValueToRValue":
            v = self.lv(sub, fr).get()
            return self.rv(v, n, fr) if isinstance(v, Undef) else v
        if ck in ("FunctionToPointerDecay", "NoOp", "UncheckedDerivedToBase", "DerivedToBase", "ArrayToPointerDecay",
                  "ConstructorConversion", "UserDefinedConversion"):
            return self.ev(sub, fr)
        v = self.ev(sub, fr)
        if ck == "IntegralCast":
            return self.to_int(v) if z3.is_expr(v) else v
        if ck == "IntegralToFloating":
            return self.to_real(v)
        if ck == "FloatingToIntegral":
            return self.to_int(v)
        if ck == "IntegralToBoolean":
            return self.to_bool(v)
        if ck == "FloatingCast":
            return v
        raise Unsupported("cast %s at %s" % (ck, self.where(n, fr)))

    def e_CXXStaticCastExpr(self, n, fr):
        v = self.ev(n["inner"][0], fr)
        k = kind_of_type(n["type"]["qualType"])
        if isinstance(v, Opaque):
            if v.tag in ("poisson", "normal", "uniform", "rng", "dist"):
                return v
            return self.fresh_nonneg("cast", k or "int")
        if k and z3.is_expr(v):
            return self.coerce(v, k)
        return v

    e_CXXFunctionalCastExpr = e_CXXStaticCastExpr

    def fresh_nonneg(self, base, kind):
        z = self.fresh(base, kind)
        self.c.assume(z >= 0)
        return z

    # ---- names ------------------------------------------------------------------
    def l_DeclRefExpr(self, n, fr):
        d = n["referencedDecl"]
        did, name = d["id"], d.get("name")
        if did in fr.locals:
            return Ref(lambda: fr.locals[did], lambda v: fr.locals.__setitem__(did, v))
        if name in self.globals:
            def gget():
                self.effects["reads"].add(("g", name))
                return self.globals[name]

            def gset(v):
                self.effects["writes"].add(("g", name))
                self.globals[name] = v
            return Ref(gget, gset)
        raise Unsupported("unbound name %s at %s" % (name, self.where(n, fr)))

    def e_DeclRefExpr(self, n, fr):
        d = n["referencedDecl"]
        if d.get("kind") in ("FunctionDecl", "CXXMethodDecl"):
            return ("fn", d["id"], d.get("name"), n.get("type", {}).get("qualType"))
        return self.lv(n, fr).get()

    def e_CXXThisExpr(self, n, fr):
        return fr.this

    def l_MemberExpr(self, n, fr):
        base = n["inner"][0]
        name = n["name"]
        b = self.strip(base)
        if b.get("kind") == "CXXThisExpr":
            obj = fr.this
        else:
            obj = self.ev(base, fr)
            if isinstance(obj, ObjPtr):
                obj = self.deref(obj, n, fr)
        if not isinstance(obj, Obj):
            raise Unsupported("member of non-object at %s" % self.where(n, fr))
        if name not in obj.fields:
            raise Unsupported("unknown field %s" % name)
        def fget():
            self.effects["reads"].add(("f", name))
            return obj.fields[name]

        def fset(v):
            self.effects["writes"].add(("f", name))
            obj.fields[name] = v
        return Ref(fget, fset)

    def e_MemberExpr(self, n, fr):
        return self.lv(n, fr).get()

    def deref(self, p, node, fr):
        if p.obj is None:
            self.rte(z3.BoolVal(False), "dereference-of-unset-pointer", node, fr)
            raise PathAbort("null dereference")
        self.rte(p.obj.alive, "use-after-free", node, fr)
        return p.obj

    # ---- operators --------------------------------------------------------------
    def e_UnaryOperator(self, n, fr):
        op = n["opcode"]
        sub = n["inner"][0]
        if op in ("++", "--"):
            r = self.lv(sub, fr)
            old = self.rv(r.get(), n, fr)
            new = old + 1 if op == "++" else old - 1
            r.set(new)
            return old if n.get("isPostfix") else new
        v = self.ev(sub, fr)
        if op == "!":
            return z3.Not(self.to_bool(v))
        if op == "-":
            return -v
        if op == "+":
            return v
        if op == "*":
            return self.lv(n, fr).get()
        raise Unsupported("unary %s" % op)

    def l_UnaryOperator(self, n, fr):
        if n["opcode"] == "*":
            p = self.ev(n["inner"][0], fr)
            raise Unsupported("pointer dereference lvalue")
        if n["opcode"] in ("++", "--"):
            self.e_UnaryOperator(n, fr)
            return self.lv(n["inner"][0], fr)
        raise Unsupported("unary lvalue")

    def arith(self, op, a, b, n, fr):
        if op in ("&&", "||"):
            raise RuntimeError
        if isinstance(a, Str) or isinstance(b, Str):
            if op == "==":
                return a.z == b.z
            if op == "!=":
                return a.z != b.z
        real = z3.is_real(a) or z3.is_real(b)
        if z3.is_bool(a):
            a = self.to_int(a)
        if z3.is_bool(b):
            b = self.to_int(b)
        if real:
            a, b = self.to_real(a), self.to_real(b)
        if op == "+":
            return a + b
        if op == "-":
            return a - b
        if op == "*":
            return a * b
        if op == "/":
            if real:
                return a / b           # IEEE: no trap
            self.rte(b != 0, "integer-division-by-zero", n, fr)
            return self.cdiv(a, b, n, fr)
        if op == "%":
            self.rte(b != 0, "integer-modulo-by-zero", n, fr)
            return self.cmod(a, b, n, fr)
        if op == "<":
            return a < b
        if op == "<=":
            return a <= b
        if op == ">":
            return a > b
        if op == ">=":
            return a >= b
        if op == "==":
            return a == b
        if op == "!=":
            return a != b
        raise Unsupported("binary %s" % op)

    def cdiv(self, a, b, n, fr):
        """C++ integer division truncates toward zero: for a >= 0, b > 0 it is the floor quotient"""
        sa, sb = z3.simplify(a), z3.simplify(b)
        if z3.is_int_value(sa) and z3.is_int_value(sb) and sb.as_long() != 0:
            q = abs(sa.as_long()) // abs(sb.as_long())
            return z3.IntVal(q if (sa.as_long() >= 0) == (sb.as_long() > 0) else -q)
        self.c.assume(divmod_fact(a, b))
        q = PYDIV(a, b)
        r = PYMOD(a, b)
        # truncation vs floor differ when the signs differ and the remainder is non-zero
        return z3.If(z3.Or(z3.And(a >= 0, b > 0), r == 0, z3.And(a <= 0, b < 0)), q, q + 1)

    def cmod(self, a, b, n, fr):
        sa, sb = z3.simplify(a), z3.simplify(b)
        self.c.assume(divmod_fact(a, b))
        r = PYMOD(a, b)
        return z3.If(z3.Or(z3.And(a >= 0, b > 0), r == 0, z3.And(a <= 0, b < 0)), r, r - b)

    def e_BinaryOperator(self, n, fr):
        op = n["opcode"]
        l, r = n["inner"]
        if op == "=":
            ref = self.lv(l, fr)
            v = self.ev(r, fr)
            v = self.assign_value(v, n["type"]["qualType"], l)
            ref.set(v)
            return v
        if op == "&&":
            a = self.to_bool(self.ev(l, fr))
            # short-circuit: the right operand is evaluated only when the left one is true
            if self.c.branch(a):
                return self.to_bool(self.ev(r, fr))
            return z3.BoolVal(False)
        if op == "||":
            a = self.to_bool(self.ev(l, fr))
            if self.c.branch(a):
                return z3.BoolVal(True)
            return self.to_bool(self.ev(r, fr))
        if op == ",":
            self.ev(l, fr)
            return self.ev(r, fr)
        a = self.ev(l, fr)
        b = self.ev(r, fr)
        return self.arith(op, a, b, n, fr)

    def l_BinaryOperator(self, n, fr):
        if n["opcode"] == "=":
            self.e_BinaryOperator(n, fr)
            return self.lv(n["inner"][0], fr)
        raise Unsupported("binary lvalue")

    def assign_value(self, v, t, lnode=None):
        k = kind_of_type(t)
        if k and z3.is_expr(v):
            return self.coerce(v, k)
        if isinstance(v, (Vec, Vec2)):
            return v.copy()
        return v

    def e_CompoundAssignOperator(self, n, fr):
        op = n["opcode"][:-1]
        l, r = n["inner"]
        ref = self.lv(l, fr)
        old = self.rv(ref.get(), n, fr)
        b = self.ev(r, fr)
        new = self.arith(op, old, b, n, fr)
        k = kind_of_type(n["type"]["qualType"]) or ("int" if z3.is_int(old) else "real")
        new = self.coerce(new, k) if z3.is_expr(new) else new
        ref.set(new)
        return new

    def e_ConditionalOperator(self, n, fr):
        c, a, b = n["inner"]
        if self.c.branch(self.to_bool(self.ev(c, fr))):
            return self.ev(a, fr)
        return self.ev(b, fr)

    # ---- subscripts ---------------------------------------------------------------
    def vec_elem_ref(self, vref, idx, node, fr, fname=None):
        """reference to element idx of the vector (or buffer) held by vref, with the bounds obligation"""
        v = vref.get()
        idx = self.to_int(idx)
        if isinstance(v, (Vec, Ptr)):
            self.rte(z3.And(idx >= 0, idx < v.n), "index-in-bounds", node, fr)

            def get():
                cur = vref.get()
                e = z3.Select(cur.arr, idx)
                self.apply_elem_fact(fname, fr, e, idx)
                return e

            def set_(x):
                cur = vref.get()
                x = self.coerce(x, cur.kind)
                lchk = getattr(self, "local_store_checks", {}).get((fr.fn, fname))
                if lchk is not None:
                    fact = lchk(self, fr, x, idx)
                    if fact is not None:
                        self.c.oblige("%s/%s/store-to-%s" % (self.prop, self.where(node, fr), fname), fact, "ensures")
                chk = getattr(self, "store_checks", {}).get(fname)
                if chk is not None and fr.this is not None:
                    fact = chk(self, fr.this, fr, x, idx)
                    if fact is not None:
                        self.c.oblige("%s/%s/entry-invariant-of-%s-kept-by-store" % (self.prop, self.where(node, fr), fname),
                                      fact, "ensures")
                if isinstance(cur, Vec):
                    vref.set(Vec(cur.kind, cur.n, z3.Store(cur.arr, idx, x)))
                else:
                    vref.set(Ptr(cur.kind, cur.n, z3.Store(cur.arr, idx, x), cur.name))
            return Ref(get, set_)
        if isinstance(v, Vec2):
            self.rte(z3.And(idx >= 0, idx < v.n), "index-in-bounds", node, fr)

            def getrow():
                cur = vref.get()
                ln = z3.Select(cur.lens, idx)
                rf = getattr(self, "row_facts", {}).get(fname)
                owner = fr.this if fr.this is not None else getattr(self, "default_obj", None)
                # row facts are part of the class invariant: they may not be assumed inside the methods that establish it
                # (there the tables are temporarily out of step: counts are bumped before the rows grow)
                if fr.fn.split("::")[-1] in ("SetNeighbors", "Build_mesh_kd", "AlgorithmSpecificInit", "Init"):
                    rf = None
                if rf is not None and owner is not None:
                    self.c.assume(rf(self, owner, ln, idx))
                self.c.assume(ln >= 0)
                return Vec(cur.kind, ln, z3.Select(cur.arr, idx))

            def setrow(row):
                cur = vref.get()
                vref.set(Vec2(cur.kind, cur.n, z3.Store(cur.lens, idx, row.n), z3.Store(cur.arr, idx, row.arr)))
            return Ref(getrow, setrow)
        raise Unsupported("subscript of %s at %s" % (type(v).__name__, self.where(node, fr)))

    def apply_elem_fact(self, fname, fr, e, idx):
        f = self.elem_facts.get(fname)
        if f is not None and fr.this is not None:
            fact = f(self, fr.this, e, idx)
            if fact is not None:
                self.c.assume(fact)
        pf = getattr(self, "param_facts", {}).get(fname)
        if pf is not None:
            self.c.assume(pf(e))
        lr = getattr(self, "local_read_facts", {}).get((fr.fn, fname))
        if lr is not None:
            fact = lr(self, fr, e, idx)
            if fact is not None:
                self.c.assume(fact)
        g = getattr(self, "read_facts", {}).get(fname)
        if g is not None and fr.this is not None:
            fact = g(self, fr.this, fr, e, idx)
            if fact is not None:
                self.c.assume(fact)

    def local_by_name(self, fr, name):
        """value of the local variable / parameter called `name` in frame fr (contracts refer to program
        variables by name; a missing name makes the contract inapplicable, i.e. the run undecided)"""
        best, seq = None, -1
        for did, v in fr.locals.items():
            if fr.names.get(did) == name and fr.decl_seq.get(did, 0) > seq:
                best, seq = v, fr.decl_seq.get(did, 0)
        return best

    def field_name_of(self, n):
        n = self.strip(n)
        if n.get("kind") == "MemberExpr":
            return n.get("name")
        if n.get("kind") == "DeclRefExpr":
            return n["referencedDecl"].get("name")
        if n.get("kind") == "CXXOperatorCallExpr" and len(n.get("inner", [])) >= 2:
            return self.field_name_of(n["inner"][1])
        return None

    def l_CXXOperatorCallExpr(self, n, fr):
        name = self.callee_name(n)
        if name == "operator[]":
            vref = self.lv(n["inner"][1], fr)
            idx = self.ev(n["inner"][2], fr)
            return self.vec_elem_ref(vref, idx, n, fr, self.field_name_of(n["inner"][1]))
        if name == "operator=":
            self.e_CXXOperatorCallExpr(n, fr)
            return self.lv(n["inner"][1], fr)
        raise Unsupported("operator call lvalue %s" % name)

    def e_CXXOperatorCallExpr(self, n, fr):
        name = self.callee_name(n)
        if name == "operator[]":
            return self.l_CXXOperatorCallExpr(n, fr).get()
        if name == "operator=":
            ref = self.lv(n["inner"][1], fr)
            v = self.ev(n["inner"][2], fr)
            if isinstance(v, (Vec, Vec2)):
                v = v.copy()
            ref.set(v)
            return v
        if name == "operator()":
            callee = self.ev(n["inner"][1], fr)
            # which generator feeds the draw: the object's own `rng` field, a global, or a local one (and its seed)
            if len(n["inner"]) > 2:
                g = self.strip(n["inner"][2])
                gv = None
                try:
                    gv = self.ev(n["inner"][2], fr)
                except Unsupported:
                    pass
                if g.get("kind") == "MemberExpr" and g.get("name") == "rng":
                    src = ("field", "rng")
                elif g.get("kind") == "DeclRefExpr" and g["referencedDecl"]["id"] in fr.locals:
                    src = ("local", g["referencedDecl"].get("name"), gv.args[0] if isinstance(gv, Opaque) and gv.args else None)
                else:
                    src = ("other", g.get("kind"))
                self.generators.append(src)
            return self.call_distribution(callee, n, fr)
        if name == "operator==":
            a = self.ev(n["inner"][1], fr)
            b = self.ev(n["inner"][2], fr)
            if isinstance(a, Str) and isinstance(b, Str):
                return a.z == b.z
            raise Unsupported("operator== on %s" % type(a).__name__)
        if name == "operator-":
            return Opaque("duration")
        raise Unsupported("operator call %s at %s" % (name, self.where(n, fr)))

    def l_ArraySubscriptExpr(self, n, fr):
        base, idx = n["inner"]
        bref = self.lv(self.strip_decay(base), fr)
        return self.vec_elem_ref(bref, self.ev(idx, fr), n, fr)

    def strip_decay(self, n):
        while n.get("kind") == "ImplicitCastExpr" and n.get("castKind") in ("LValueToRValue", "ArrayToPointerDecay"):
            n = n["inner"][0]
        return n

    def e_ArraySubscriptExpr(self, n, fr):
        return self.l_ArraySubscriptExpr(n, fr).get()

    # ---- library: distributions, math ----------------------------------------------------
    def call_distribution(self, d, n, fr):
        if not isinstance(d, Opaque):
            raise Unsupported("call operator on %r" % (d,))
        self.effects["externals"].add(d.tag)
        if d.tag == "poisson":
            mean = d.args[0]
            self.rte(mean > 0, "poisson_distribution-mean-positive", n, fr)
            r = self.fresh("poisson", "int")
            self.c.assume(r >= 0)
            self.trace.append(("poisson", mean, r))
            return r
        if d.tag == "normal":
            m, s = d.args
            self.rte(s > 0, "normal_distribution-stddev-positive", n, fr)
            r = self.fresh("normal", "real")
            self.trace.append(("normal", m, s, r))
            return r
        if d.tag in ("uniform", "dist"):
            r = self.fresh("uniform", "real")
            # A2: uniform_real_distribution(0,1) returns a value in [0,1); the engine divides by it
            # (log(1/u)), so the draw is assumed strictly positive
            self.c.assume(z3.And(r > 0, r < 1))
            self.trace.append(("uniform", r))
            return r
        raise Unsupported("call of %s" % d.tag)

    def construct(self, n, fr):
        t = norm_type(n["type"]["qualType"])
        args = [x for x in n.get("inner", []) if x.get("kind")]
        if "poisson_distribution" in t:
            if not args:
                raise Unsupported("default-constructed poisson_distribution at %s" % self.where(n, fr))
            return Opaque("poisson", self.to_real(self.ev(args[0], fr)))
        if "normal_distribution" in t:
            return Opaque("normal", self.to_real(self.ev(args[0], fr)), self.to_real(self.ev(args[1], fr)))
        if "uniform_real_distribution" in t:
            for a in args:
                self.ev(a, fr)
            return Opaque("uniform")
        if "mersenne" in t or "mt19937" in t:
            if args:
                a = self.ev(args[0], fr)
                if isinstance(a, Opaque):
                    return a
                return Opaque("rng", a)
            return Opaque("rng")
        if t.startswith("std::vector<std::vector<"):
            if not args:
                return self.default_value(t)
            if len(args) == 1:
                a = self.ev(args[0], fr)
                if isinstance(a, Vec2):
                    return a.copy()
            raise Unsupported("vector<vector> constructor")
        if t.startswith("std::vector<"):
            inner = t[len("std::vector<"):].rsplit(">", 1)[0]
            kk = kind_of_type(inner) or "real"
            zero = z3.IntVal(0) if kk == "int" else z3.RealVal(0)
            if not args:
                return Vec(kk, z3.IntVal(0), z3.K(z3.IntSort(), zero))
            a0 = self.ev(args[0], fr)
            if isinstance(a0, Vec):
                return a0.copy()
            if isinstance(a0, list):      # initializer list
                arr = z3.K(z3.IntSort(), zero)
                for i, x in enumerate(a0):
                    arr = z3.Store(arr, i, self.coerce(x, kk))
                return Vec(kk, z3.IntVal(len(a0)), arr)
            nlen = self.to_int(a0)
            self.rte(nlen >= 0, "vector-size-non-negative", n, fr)
            fill = zero
            if len(args) >= 2 and args[1].get("kind") != "CXXDefaultArgExpr":
                fill = self.coerce(self.ev(args[1], fr), kk)
            return Vec(kk, nlen, z3.K(z3.IntSort(), fill))
        if t in ("std::string", "std::basic_string<char>", "std::__cxx11::basic_string<char>") or "basic_string" in t:
            a = self.ev(args[0], fr)
            return a
        if t in self.prog.classes:
            return self.new_object(t)
        if "chrono" in t or "time_point" in t or "duration" in t:
            return Opaque("time")
        raise Unsupported("constructor of %s at %s" % (t, self.where(n, fr)))

    e_CXXConstructExpr = construct
    e_CXXTemporaryObjectExpr = construct

    def e_InitListExpr(self, n, fr):
        return [self.ev(x, fr) for x in n.get("inner", [])]

    def e_CXXStdInitializerListExpr(self, n, fr):
        return self.ev(n["inner"][0], fr)

    def e_CXXNewExpr(self, n, fr):
        t = norm_type(n["type"]["qualType"]).rstrip("*").strip()
        if t not in self.prog.classes:
            raise Unsupported("new %s" % t)
        o = self.new_object(t)
        self.trace.append(("new", t))
        return ObjPtr(o, t)

    def e_CXXDeleteExpr(self, n, fr):
        p = self.ev(n["inner"][0], fr)
        if not isinstance(p, ObjPtr):
            raise Unsupported("delete of %r" % (p,))
        if p.obj is None:
            self.rte(z3.BoolVal(False), "delete-of-unset-pointer", n, fr)
            return None
        self.rte(p.obj.alive, "delete-of-live-object(double-free)", n, fr)
        p.obj.alive = z3.BoolVal(False)
        self.trace.append(("delete", p.obj.cls))
        return None

    def libcall(self, name, args, n, fr):
        if name == "pow":
            x, y = self.to_real(args[0]), self.to_real(args[1])
            ys = z3.simplify(y)
            if z3.is_rational_value(ys):
                f = ys.as_fraction()
                if f.denominator == 1 and 0 <= f.numerator <= 6:
                    r = z3.RealVal(1)
                    for _ in range(f.numerator):
                        r = r * x
                    return r
                if f.numerator == 1 and f.denominator in (2, 3):
                    r = root_fn(f.denominator)(x)
                    self.c.assume(root_fact(f.denominator, x))
                    return r
            p = CPOW(x, y)
            self.c.assume(z3.And(z3.Implies(y == 0, p == 1), z3.Implies(y == 1, p == x), z3.Implies(y == 2, p == x * x),
                                 z3.Implies(y == 3, p == x * x * x), z3.Implies(y == 4, p == x * x * x * x),
                                 z3.Implies(x > 0, p > 0), z3.Implies(z3.And(x == 0, y > 0), p == 0)))
            return p
        if name == "floor":
            x = self.to_real(args[0])
            return z3.ToReal(z3.ToInt(x))
        if name == "log":
            x = self.to_real(args[0])
            r = CLOG(x)
            self.c.assume(z3.And(z3.Implies(x > 1, r > 0), z3.Implies(x == 1, r == 0), z3.Implies(z3.And(x > 0, x < 1), r < 0)))
            return r
        if name == "sqrt":
            x = self.to_real(args[0])
            r = CSQRT(x)
            self.c.assume(z3.Implies(x >= 0, z3.And(r >= 0, r * r == x, z3.Implies(x > 0, r > 0))))
            return r
        if name == "abs":
            x = args[0]
            return z3.If(x >= 0, x, -x)
        if name == "max":
            a, b = args
            if z3.is_real(a) or z3.is_real(b):
                a, b = self.to_real(a), self.to_real(b)
            return z3.If(a >= b, a, b)
        if name == "min":
            a, b = args
            return z3.If(a <= b, a, b)
        if name in ("now",):
            self.effects["externals"].add("clock")
            return Opaque("time")
        if name in ("duration_cast",):
            return Opaque("duration")
        return None

    def l_CallExpr(self, n, fr):
        v = self.e_CallExpr(n, fr)
        return Ref(lambda: v, lambda x: None)

    def l_CXXMemberCallExpr(self, n, fr):
        v = self.e_CXXMemberCallExpr(n, fr)
        return Ref(lambda: v, lambda x: None)

    def e_CallExpr(self, n, fr):
        callee = self.ev(n["inner"][0], fr)
        argn = n["inner"][1:]
        if isinstance(callee, tuple) and callee[0] == "fn":
            name = callee[2]
            fn = self.find_function(name, callee[3] if len(callee) > 3 else None)
            if fn is None or not self.prog.body(fn):
                args = [self.ev(a, fr) for a in argn]
                r = self.libcall(name, args, n, fr)
                if r is None:
                    raise Unsupported("call of external function %s at %s" % (name, self.where(n, fr)))
                return r
            args = [self.ev(a, fr) for a in argn]
            return self.call(fn, None, args, n, fr)
        raise Unsupported("call through %r" % (callee,))

    def e_CXXMemberCallExpr(self, n, fr):
        me = self.strip(n["inner"][0])
        name = me.get("name")
        argn = n["inner"][1:]
        own = None
        if name not in ("size", "resize", "clear", "push_back", "count"):
            base0 = self.strip(me["inner"][0])
            if base0.get("kind") == "CXXThisExpr":
                own = fr.this
            else:
                own = self.ev(me["inner"][0], fr)
                if isinstance(own, ObjPtr):
                    own = self.deref(own, n, fr)
            if not isinstance(own, Obj):
                own = None
        if own is None:
            # library container methods
            if name in ("size", "resize", "clear", "push_back"):
                ref = self.lv(me["inner"][0], fr)
                v = ref.get()
                if name == "size":
                    return v.n
                if name == "clear":
                    if isinstance(v, Vec):
                        ref.set(Vec(v.kind, z3.IntVal(0), v.arr))
                    else:
                        ref.set(Vec2(v.kind, z3.IntVal(0), v.lens, v.arr))
                    return None
                if name == "resize":
                    newn = self.to_int(self.ev(argn[0], fr))
                    self.rte(newn >= 0, "vector-size-non-negative", n, fr)
                    if isinstance(v, Vec):
                        zero = z3.IntVal(0) if v.kind == "int" else z3.RealVal(0)
                        fill = zero
                        if len(argn) >= 2 and argn[1].get("kind") and argn[1].get("kind") != "CXXDefaultArgExpr":
                            fill = self.coerce(self.ev(argn[1], fr), v.kind)
                        j = z3.Int(self.c.fresh("j"))
                        arr = z3.Lambda([j], z3.If(j < v.n, z3.Select(v.arr, j), fill))
                        ref.set(Vec(v.kind, newn, arr))
                    else:
                        j = z3.Int(self.c.fresh("j"))
                        lens = z3.Lambda([j], z3.If(j < v.n, z3.Select(v.lens, j), z3.IntVal(0)))
                        ref.set(Vec2(v.kind, newn, lens, v.arr))
                    return None
                if name == "push_back":
                    x = self.ev(argn[0], fr)
                    if isinstance(v, Vec):
                        x = self.coerce(x, v.kind)
                        ref.set(Vec(v.kind, v.n + 1, z3.Store(v.arr, v.n, x)))
                    else:
                        if not isinstance(x, Vec):
                            raise Unsupported("push_back of non-vector")
                        ref.set(Vec2(v.kind, v.n + 1, z3.Store(v.lens, v.n, x.n), z3.Store(v.arr, v.n, x.arr)))
                    return None
            if name == "count":
                self.ev(me["inner"][0], fr)
                return self.fresh_nonneg("count", "int")
            raise Unsupported("member call %s at %s" % (name, self.where(n, fr)))
        obj = own
        args = [self.ev(a, fr) for a in argn]
        target, _ = self.prog.method(obj.cls, name) or (None, None)
        if target is None:
            raise Unsupported("no body for %s::%s" % (obj.cls, name))
        return self.call(target, obj, args, n, fr)

    def find_function(self, name, qtype):
        cands = self.prog.functions.get(name, [])
        if not cands:
            return None
        if len(cands) == 1:
            return cands[0]
        for f in cands:
            if f.get("type", {}).get("qualType") == qtype:
                return f
        return cands[0]

    def call(self, fn, this, args, node, fr):
        obs = getattr(self, "on_call", None)
        if obs is not None:
            obs(fn, this, args)
        stub = getattr(self, "stubs", {}).get(fn.get("name")) if this is None else None
        if stub is not None and self.depth > 0:
            return stub(self, args, fr)
        mstub = getattr(self, "method_stubs", {}).get(fn.get("name")) if this is not None else None
        if mstub is not None and self.depth > 0:
            return mstub(self, this, args, fr, node)
        self.depth += 1
        if self.depth > 40:
            raise Unsupported("call depth")
        name = (fn.get("_class", "") + "::" if fn.get("_class") else "") + fn["name"]
        if this is not None:
            name = this.cls + "::" + fn["name"]
        nf = Frame(name, this)
        params = self.prog.params(fn)
        for p, a in zip(params, args):
            t = p["type"]["qualType"]
            if isinstance(a, (Vec, Vec2)) and "&" not in t:
                a = a.copy()
            k = kind_of_type(t)
            if k and z3.is_expr(a):
                a = self.coerce(a, k)
            nf.locals[p["id"]] = a
            nf.names[p["id"]] = p.get("name")
        self.calls.append(name)
        ret = None
        try:
            self.exec(self.prog.body(fn), nf)
        except ReturnEx as r:
            ret = r.value
        finally:
            self.depth -= 1
            self.last_frame_locals = {nf.names.get(did): v for did, v in nf.locals.items()}
        if ret is not None and z3.is_expr(ret):
            k = kind_of_type(fn["type"]["qualType"].split("(")[0])
            if k:
                ret = self.coerce(ret, k)
        return ret
