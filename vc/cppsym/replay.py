"""Builds the replay driver against the engine sources of $VERIF_REPO (scratch directory, removed
afterwards) and runs concrete scenarios under ASan + UBSan + _GLIBCXX_ASSERTIONS with a time limit."""
import os
import shutil
import subprocess
import tempfile

HERE = os.path.dirname(os.path.abspath(__file__))
SRC_DIR = "src/strengths/engines/strengths_engine/src"

SCENARIOS = ["run-to-last-sample", "empty-sample-list", "zero-propensity", "double-finalize",
             "setup-finalize-setup", "degenerate", "sub-molecule-total"]
ENGINES = ["euler", "tauleap", "gillespie"]
SPACES = ["grid", "graph"]


class Battery:
    def __init__(self, repo=None, sanitize=True):
        self.repo = repo or os.environ.get("VERIF_REPO", "/repo")
        self.dir = tempfile.mkdtemp(prefix="verif_drv_")
        self.exe = os.path.join(self.dir, "driver")
        self.build_log = ""
        self.ok = False
        self.sanitize = sanitize

    def build(self):
        cmd = ["clang++", "-std=c++11", "-O1", "-g", "-I", os.path.join(self.repo, SRC_DIR)]
        if self.sanitize:
            cmd += ["-fsanitize=address,undefined", "-fno-sanitize-recover=undefined", "-D_GLIBCXX_ASSERTIONS"]
        cmd += [os.path.join(HERE, "driver.cpp"), "-o", self.exe]
        p = subprocess.run(cmd, capture_output=True, text=True, cwd=os.path.join(self.repo, SRC_DIR))
        self.build_log = p.stderr[-3000:]
        self.ok = p.returncode == 0
        return self.ok

    def run(self, scenario, engine="euler", space="grid", policy="on_t_sample", mode="auto", seed=1, timeout=20):
        """returns dict(status = ok | crash | hang | setup-error, detail)"""
        args = [self.exe, scenario, engine, space, policy, mode, str(seed)]
        env = dict(os.environ, ASAN_OPTIONS="detect_leaks=0:abort_on_error=0", UBSAN_OPTIONS="print_stacktrace=1")
        try:
            p = subprocess.run(args, capture_output=True, text=True, timeout=timeout, env=env)
        except subprocess.TimeoutExpired:
            return {"status": "hang", "detail": "no return within %ds" % timeout, "cmd": " ".join(args[1:])}
        if p.returncode == 0:
            return {"status": "ok", "detail": "", "cmd": " ".join(args[1:])}
        if p.returncode in (2, 3):
            return {"status": "setup-error", "detail": "driver exit %d" % p.returncode, "cmd": " ".join(args[1:])}
        tail = (p.stderr or "")[-1500:]
        return {"status": "crash", "detail": "exit %d: %s" % (p.returncode, tail), "cmd": " ".join(args[1:])}

    def close(self):
        shutil.rmtree(self.dir, ignore_errors=True)
