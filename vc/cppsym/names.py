"""class names of the engine (importable without z3)"""
GRID = ("Euler3D", "TauLeap3D", "Gillespie3D")
GRAPH = ("EulerGraph", "TauLeapGraph", "GillespieGraph")
ALL = GRID + GRAPH
LOOP_INV = {}
