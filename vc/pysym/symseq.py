"""Symbolic-length sequence of python objects: element k is produced on demand by a
factory from the index term (generic element reasoning for lists of objects)."""
import z3
from ..core.ctx import Unsupported
from ..core.proxies import SInt, zint, ctx


class SymSeq:
    def __init__(self, n, factory):
        self.n = n              # z3 Int
        self.factory = factory  # z3 Int index -> python object

    def sym_len(self):
        return SInt(self.n)

    def __len__(self):
        raise Unsupported("len() of a symbolic sequence at the C level")

    def __getitem__(self, i):
        c = ctx()
        iz = zint(i)
        if c.branch(z3.And(iz >= 0, iz < self.n)):
            return self.factory(z3.simplify(iz))
        if c.branch(z3.And(iz < 0, iz >= -self.n)):
            return self.factory(z3.simplify(iz + self.n))
        raise IndexError("sequence index out of range")

    def __iter__(self):
        raise Unsupported("iteration over a symbolic sequence outside a rewritten loop")

    def __vc_loop__(self, loop_id, tracked, stored):
        from .loops import SymLoop
        return SymLoop(z3.IntVal(0), self.n, lambda v: self.factory(v), loop_id, tracked, stored)

    def __vc_comp__(self, fn):
        from .loops import vc_comp
        from .arrays import SymRange
        return vc_comp(lambda k: fn(self.factory(k.z)), SymRange(z3.IntVal(0), self.n))

    def __deepcopy__(self, memo):
        return self
