"""Loads `strengths.*` from $VERIF_REPO/src for symbolic execution.

Each repository module is read from disk *now*, rewritten by rewrite.py and exec'd
in a namespace whose __builtins__ is the shadow dictionary.  Third-party imports
made by the repository (numpy, ctypes, random, json, copy, ...) are resolved by the
private __import__: numpy / ctypes / random are replaced by shims (trusted base,
conformance-tested), everything else is the real module.
"""
import builtins as _bi
import importlib
import os
import sys
import types

from . import rewrite, shadow, loops, npshim
from ..core.ctx import Unsupported

from . import tables

REPO = os.environ.get("VERIF_REPO", "/repo")
POST_LOAD = {"strengths.units": tables.patch_units}


class Instrumented:
    """one instrumented copy of the package (fresh module objects per call of load())"""

    def __init__(self, repo=None, shims=None):
        self.repo = repo or os.environ.get("VERIF_REPO", "/repo")
        self.src = os.path.join(self.repo, "src")
        self.modules = {}
        self.rewrites = {}
        self.loops = {}
        from . import ctshim
        self.shims = {"numpy": npshim.module(), "ctypes": ctshim.module()}
        if shims:
            self.shims.update(shims)
        self.builtins = shadow.make_builtins(self._import)
        pkg = types.ModuleType("strengths")
        pkg.__path__ = [os.path.join(self.src, "strengths")]
        pkg.__package__ = "strengths"
        self.modules["strengths"] = pkg
        self.loading = set()
        self._init_package(pkg)

    def _init_package(self, pkg):
        """execute strengths/__init__.py itself so that modules are imported in the real order
        (the package has import cycles whose outcome depends on it)"""
        path = os.path.join(self.src, "strengths", "__init__.py")
        with open(path, encoding="utf-8") as f:
            source = f.read()
        code = compile(source, path, "exec")
        g = pkg.__dict__
        g["__builtins__"] = self.builtins
        g["__file__"] = path
        exec(code, g)

    # ------------------------------------------------------------------
    def _path(self, name):
        rel = name.split(".")
        p = os.path.join(self.src, *rel) + ".py"
        if os.path.exists(p):
            return p
        p = os.path.join(self.src, *rel, "__init__.py")
        if os.path.exists(p):
            return p
        return None

    def _import(self, name, globals=None, locals=None, fromlist=(), level=0):
        if level != 0:
            raise Unsupported("relative import in repository module")
        top = name.split(".")[0]
        if top == "strengths":
            mod = self.load(name)
            if fromlist:
                for f in fromlist:
                    if f != "*" and not hasattr(mod, f):
                        sub = name + "." + f
                        if self._path(sub):
                            setattr(mod, f, self.load(sub))
                return mod
            return self.modules["strengths"]
        if top in self.shims:
            return self.shims[top]
        return _bi.__import__(name, globals, locals, fromlist, level)

    def load(self, name):
        if name in self.modules:
            return self.modules[name]
        if name == "strengths":
            return self.modules[name]
        path = self._path(name)
        if path is None:
            raise ImportError("no repository module %s" % name)
        with open(path, encoding="utf-8") as f:
            source = f.read()
        import warnings
        with warnings.catch_warnings():
            warnings.simplefilter("ignore")
            tree, rw = rewrite.rewrite_module(source, path, name)
            code = compile(tree, path, "exec")
        mod = types.ModuleType(name)
        mod.__file__ = path
        mod.__package__ = name.rpartition(".")[0]
        g = mod.__dict__
        g["__builtins__"] = self.builtins
        g["_vc_in"] = loops.vc_in
        g["_vc_not"] = loops.vc_not
        g["_vc_comp"] = loops.vc_comp
        g["_vc_loop"] = loops.vc_loop
        g["_vc_get"] = loops.vc_get
        g["_vc_LoopReturn"] = loops.LoopReturn
        self.modules[name] = mod
        self.rewrites[name] = dict(rw.counts)
        self.loops.update(rw.loops)
        # parent packages
        parts = name.split(".")
        parent = self.modules["strengths"]
        if len(parts) == 2:
            setattr(parent, parts[1], mod)     # visible during circular imports, as in sys.modules
        exec(code, g)
        hook = POST_LOAD.get(name)
        if hook:
            hook(mod)
        if len(parts) == 2:
            setattr(parent, parts[1], mod)
        return mod

    def __getitem__(self, name):
        return self.load("strengths." + name if not name.startswith("strengths") else name)


_cache = {}


def instrumented(repo=None, **kw):
    key = (repo or os.environ.get("VERIF_REPO", "/repo"))
    if key not in _cache or kw:
        inst = Instrumented(repo, **kw)
        if kw:
            return inst
        _cache[key] = inst
    return _cache[key]
