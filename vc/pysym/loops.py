"""Run-time side of the loop rewrites: generic iteration and the rules R1 / R2 / R3.

For a *concrete* iterable the loop object is transparent.  For a symbolic iterable
(range with symbolic bound, symbolic-length array) the body is executed ONCE for a
generic element i* (fresh, lo <= i* < hi).  The effects observed during that
iteration are generalised:

 no effect          -> the loop is a no-op
 R1 parallel-for    -> every store goes to A[i*] of a symbolic array: after the loop
                       A[j] = value(j) for lo <= j < hi, other elements unchanged.
                       Side conditions checked here: the index is exactly the generic
                       index (injective, in bounds) and the body does not read A at
                       another index (reads go through the array term before the store).
 R3 fold-sum        -> numeric local acc with acc' = acc + t(i*), t independent of acc:
                       after the loop acc = acc0 + SUM_k(lo, hi) where SUM_k is a ghost
                       function with unfolding facts (registered in ctx.sums).
 R3 fold-product    -> acc' = acc * t(i*): acc = acc0 * PROD_k(lo, hi).
 R2 append          -> a python list grown by m elements per iteration becomes a
                       GenList (prefix + n*m generic elements).
Anything else observed (object-valued accumulators that change, stores at other
indices, break/return inside a generic iteration, ...) raises Unsupported: the run is
then undecided, never green.
"""
import z3
from ..core.ctx import Ctx, Unsupported, PathAbort, _mentions
from ..core.proxies import SReal, SInt, SBool, SEnum, zreal, zint, ctx, _num
from .arrays import NArr, SymArr, SymRange, SymList, ReshapedSlice

UNBOUND = object()


def vc_get(thunk):
    try:
        return thunk()
    except NameError:
        return UNBOUND


class LoopReturn(BaseException):
    """raised by SymLoop.on_return to leave the generic sub-path that executes `return`"""

    def __init__(self, loop):
        self.loop = loop


class _Concrete:
    sym = False

    def __init__(self, it):
        self.it = it


class GenList(list):
    """python list whose tail was produced by a generic loop:
    items = prefix + [blk(i)[u] for i in lo..hi-1 for u in 0..m-1]"""

    def __init__(self, prefix, lo, hi, var, block):
        list.__init__(self, prefix)
        self.prefix = list(prefix)
        self.lo, self.hi, self.var, self.block = lo, hi, var, block
        self.m = len(block)

    def sym_len(self):
        return SInt(len(self.prefix) + (self.hi - self.lo) * self.m)

    def element(self, k):
        """element number k (z3 Int, offset from end of prefix) of the generic part, m == 1"""
        if self.m != 1:
            raise Unsupported("GenList with block size %d" % self.m)
        return _subst_value(self.block[0], self.var, self.lo + k)

    def __getitem__(self, i):
        if isinstance(i, int) and 0 <= i < len(self.prefix):
            return self.prefix[i]
        c = ctx()
        iz = zint(i)
        off = iz - len(self.prefix)
        if c.branch(z3.And(off >= 0, off < (self.hi - self.lo) * self.m)):
            return self.element(z3.simplify(off))
        raise IndexError("list index out of range")

    def __iter__(self):
        raise Unsupported("iteration over a generically built list outside a rewritten loop")

    def __len__(self):
        raise Unsupported("len() of a generically built list at the C level")


def _subst_value(v, var, by):
    if isinstance(v, SReal):
        return SReal(z3.substitute(v.z, (var, by)))
    if isinstance(v, SInt):
        return SInt(z3.substitute(v.z, (var, by)))
    if isinstance(v, SBool):
        return SBool(z3.substitute(v.z, (var, by)))
    if isinstance(v, (int, float, str, bool)) or v is None:
        return v
    if hasattr(v, "__vc_subst__"):
        return v.__vc_subst__(var, by)
    return _subst_object(v, var, by)


def _subst_object(o, var, by):
    """structural substitution through plain python objects holding proxies"""
    import copy
    if isinstance(o, (list, tuple)):
        return type(o)(_subst_value(x, var, by) for x in o)
    if isinstance(o, dict):
        return {k: _subst_value(x, var, by) for k, x in o.items()}
    if isinstance(o, SymArr):
        return SymArr(z3.substitute(o.n, (var, by)), z3.substitute(o.arr, (var, by)), o.sort)
    if isinstance(o, SEnum):
        return SEnum(o.kind, o.domain, z3.substitute(o.z, (var, by)))
    if hasattr(o, "__dict__"):
        n = copy.copy(o)
        for k, x in list(vars(o).items()):
            setattr_raw(n, k, _subst_value(x, var, by))
        return n
    raise Unsupported("cannot generalise a %s over the loop index" % type(o).__name__)


def setattr_raw(o, k, v):
    object.__setattr__(o, k, v)


class Merger:
    """sub-path bookkeeping shared by generic loops and generic comprehensions: decisions that
    depend on the generic element are explored exhaustively and their effects merged by ite"""

    def _reset_sub(self, prefix):
        self.sub_prefix = list(prefix)
        self.sub_pos = 0
        self.sub_pending = []
        self.sub_pc = []

    def sub_branch(self):
        if self.sub_pos < len(self.sub_prefix):
            d = self.sub_prefix[self.sub_pos]
        else:
            d = True
            self.sub_pending.append(self.sub_prefix + [False])
            self.sub_prefix.append(True)
        self.sub_pos += 1
        return d

    def sub_choose(self, vals):
        if self.sub_pos < len(self.sub_prefix):
            k = self.sub_prefix[self.sub_pos]
        else:
            k = vals[0]
            for v in vals[1:]:
                self.sub_pending.append(self.sub_prefix + [v])
            self.sub_prefix.append(k)
        self.sub_pos += 1
        return k

    def note_store(self, arr, iz, vz, old):
        raise Unsupported("array store inside a generic comprehension")


def _ite_chain(items):
    """items: [(cond z3 | None, value z3)] in exploration order; conditions are exhaustive"""
    val = items[-1][1]
    for cond, v in reversed(items[:-1]):
        val = z3.If(cond, v, val)
    return val


def _and(cs):
    cs = list(cs)
    if not cs:
        return z3.BoolVal(True)
    return z3.And(*cs) if len(cs) > 1 else cs[0]


class SymLoop(Merger):
    sym = True

    def __init__(self, lo, hi, elem, loop_id, tracked, stored):
        self.lo, self.hi = lo, hi
        self.elem = elem                # index term -> python value handed to the body
        self.loop_id = loop_id
        self.tracked = tracked
        self.stored = stored
        self.stores = []                # (array object, index z3, value z3, old term)
        self.entered = None
        self.havoc = {}
        self.scope = None
        self.ran = False
        self.sub_results = []
        self.it = self._gen()

    def note_store(self, arr, iz, vz, old):
        self.stores.append((arr, iz, vz, old))

    # ------------------------------------------------------------------
    def _gen(self):
        c = ctx()
        if not c.branch(self.hi > self.lo):
            return
        self.var = z3.Int(c.fresh("i*"))
        self.scope = c.generic_scope(self.var, z3.And(self.var >= self.lo, self.var < self.hi))
        self.scope.__enter__()
        if not hasattr(c, "loop_stack"):
            c.loop_stack = []
        c.loop_stack.append(self)
        self.ran = True
        work = [[]]
        while work:
            self._reset_sub(work.pop())
            self.stores = []
            self.left = False
            mark = len(c.pc)
            nfor = len(getattr(c, "foralls", []))
            c.solver.push()
            yield self.elem(self.var)
            # body finished: leave() has classified the effects of this sub-path
            if not self.left:
                raise Unsupported("%s: generic iteration did not reach the end of the body" % self.loop_id)
            self.sub_results.append((list(self.sub_pc), self.cur))
            work.extend(self.sub_pending)
            # undo the sub-path: path condition, arrays, lists
            tail = c.pc[mark:]
            if "ret" in self.cur:
                # everything learned on a returning sub-path about the generic element (decisions and
                # facts, e.g. about Skolem constants of nested searches) travels with the return
                self.cur["facts"] = [f for f in tail if _mentions(f, [self.var])]
            # universal facts of nested searches that talk about the generic element
            fl = getattr(c, "foralls", [])
            mine = [f for f in fl[nfor:] if _mentions(f["body"], [self.var]) or _mentions(f["lo"], [self.var])
                    or _mentions(f["hi"], [self.var])]
            if mine:
                c.foralls = fl[:nfor] + [f for f in fl[nfor:] if f not in mine]
                if "ret" in self.cur:
                    self.cur["foralls"] = mine
            del c.pc[mark:]
            c.solver.pop()
            for f in tail:
                if not _mentions(f, [self.var]):
                    c.pc.append(f)
                    c.solver.add(f)
            seen = set()
            for (arr, iz, vz, old) in self.stores:
                if id(arr) not in seen:
                    seen.add(id(arr))
                    arr.arr = old
            for n, (lst, l0, blk) in self.cur["lists"].items():
                del lst[l0:]
            self.cur = None

    def _close_scope(self):
        c = ctx()
        if self.scope is not None:
            c.loop_stack.pop()
            self.scope.__exit__(None, None, None)
            self.scope = None

    # ------------------------------------------------------------------
    def enter(self, vals):
        """havoc the numeric locals the body assigns; remember everything else"""
        c = ctx()
        cur = dict(zip(self.tracked, vals))
        first = self.entered is None
        if first:
            self.entered = cur
        self.list_len = {}
        out = []
        for n in self.tracked:
            v = cur[n]
            if isinstance(v, list) and not isinstance(v, GenList):
                self.list_len[n] = len(v)
        for n in self.stored:
            v = self.entered[n]
            if isinstance(v, (SReal, float)) or (isinstance(v, (SInt, int)) and not isinstance(v, bool)):
                if n not in self.havoc:
                    isint = isinstance(v, (SInt, int))
                    self.havoc[n] = z3.Int(c.fresh("acc")) if isint else z3.Real(c.fresh("acc"))
                h = self.havoc[n]
                out.append(SInt(h) if z3.is_int(h) else SReal(h))
            else:
                out.append(v)
        return tuple(out) if len(out) != 1 else (out[0],)

    def leave(self, vals):
        """end of one generic sub-path: classify the effects"""
        c = ctx()
        cur = dict(zip(self.tracked, vals))
        res = {}
        for n in self.stored:
            before = self.entered[n]
            after = cur[n]
            if n in self.havoc:
                h = self.havoc[n]
                isint = z3.is_int(h)
                if not _num(after):
                    raise Unsupported("%s: accumulator %s changes type in the loop" % (self.loop_id, n))
                az = zint(after) if isint and isinstance(after, (SInt, int)) else zreal(after)
                hz = h if az.sort() == h.sort() else z3.ToReal(h)
                delta = z3.simplify(az - hz, som=True)
                if not _mentions(delta, [h]):
                    if z3.is_true(z3.simplify(delta == 0)):
                        res[n] = ("same",)
                    else:
                        res[n] = ("sum", delta)
                    continue
                fac = z3.simplify(z3.substitute(az, (h, z3.IntVal(1) if z3.is_int(h) else z3.RealVal(1))))
                if not _mentions(fac, [h]) and _valid(c, az == hz * fac):
                    res[n] = ("prod", fac)
                    continue
                raise Unsupported("%s: local %s is carried through the loop in a form that is "
                                  "neither a sum nor a product fold" % (self.loop_id, n))
            else:
                if after is before:
                    res[n] = ("same",)
                elif before is UNBOUND:
                    res[n] = ("temp", after)      # loop-local temporary
                else:
                    raise Unsupported("%s: object-valued local %s is reassigned in a generic "
                                      "iteration" % (self.loop_id, n))
        lists = {}
        for n, l0 in self.list_len.items():
            v = cur[n]
            if isinstance(v, list) and len(v) != l0:
                if len(v) < l0:
                    raise Unsupported("%s: list %s shrinks in the loop" % (self.loop_id, n))
                lists[n] = (v, l0, list(v[l0:]))
        # arrays: stores A[i*] = v  (R1)
        arrays = {}
        for (arr, iz, vz, old) in self.stores:
            if not z3.eq(z3.simplify(iz), self.var):
                raise Unsupported("%s: store index %s is not the generic index" % (self.loop_id, iz))
            ent = arrays.setdefault(id(arr), [arr, old, vz])
            ent[2] = vz
        self.cur = {"accs": res, "lists": lists, "arrays": arrays}
        self.left = True

    # ------------------------------------------------------------------
    def on_break(self):
        raise Unsupported("%s: break inside a generic iteration" % self.loop_id)

    def on_continue(self):
        raise Unsupported("%s: continue inside a generic iteration" % self.loop_id)

    def on_return(self, value):
        """`return value` inside the generic iteration: search-loop rule.  The sub-path is recorded
        as a returning one (no other effect allowed) and abandoned."""
        if self.stores:
            raise Unsupported("%s: return after an array store in a generic iteration" % self.loop_id)
        self.cur = {"accs": {n: ("same",) for n in self.stored}, "lists": {}, "arrays": {}, "ret": value}
        self.left = True
        raise LoopReturn(self)

    def takes_return(self):
        """after the loop: does some iteration return?  Main-level decision.
        True  : i0 is the least index whose iteration returns (facts: range, condition, minimality schema)
        False : no iteration returns (universal fact registered as an instantiable schema)"""
        if not self.ran:
            return False
        rets = [(pc, e["ret"]) for pc, e in self.sub_results if "ret" in e]
        if not rets:
            return False
        c = ctx()
        var, lo, hi = self.var, self.lo, self.hi
        # decisions only: which iterations reach a `return`
        cond = z3.Or(*[_and(pc) for pc, _ in rets]) if len(rets) > 1 else _and(rets[0][0])
        full = [z3.And(_and(pc), _and(e.get("facts", []))) for pc, e in self.sub_results if "ret" in e]
        fullcond = z3.Or(*full) if len(full) > 1 else full[0]
        i0 = z3.Int(c.fresh("i0"))
        here = z3.And(i0 >= lo, i0 < hi, z3.substitute(fullcond, (var, i0)))
        if not hasattr(c, "foralls"):
            c.foralls = []
        # the decision itself: a fresh boolean recorded in the path prefix
        b = z3.Bool(c.fresh("ret"))
        if c.feasible(here) and c.branch(b):
            c.assume(here)
            c.foralls.append({"var": var, "lo": lo, "hi": i0, "body": z3.Not(cond),
                              "why": "%s: no earlier iteration returns" % self.loop_id})
            for _, e in self.sub_results:
                for f in e.get("foralls", []):
                    c.foralls.append({"var": f["var"], "lo": z3.substitute(f["lo"], (var, i0)),
                                      "hi": z3.substitute(f["hi"], (var, i0)),
                                      "body": z3.substitute(f["body"], (var, i0)), "why": f["why"]})
            vals = [_subst_value(v, var, i0) for _, v in rets]
            conds = [z3.substitute(_and(pc), (var, i0)) for pc, _ in rets]
            self._ret_value = _merge_values(conds, vals, self.loop_id) if len(vals) > 1 else vals[0]
            return True
        c.foralls.append({"var": var, "lo": lo, "hi": hi, "body": z3.Not(cond),
                          "why": "%s: no iteration returns" % self.loop_id})
        return False

    def return_value(self):
        return self._ret_value

    # ------------------------------------------------------------------
    def exit(self, vals):
        """after the loop: merge the sub-paths and rebuild the values of the stored locals"""
        c = ctx()
        cur = dict(zip(self.tracked, vals))
        if not self.ran:
            out = [cur[n] for n in self.stored]
            return tuple(out) if len(out) != 1 else (out[0],)
        var, lo, hi = self.var, self.lo, self.hi
        conds = [_and(pc) for pc, _ in self.sub_results]
        effs = [e for _, e in self.sub_results]
        if any("ret" in e for e in effs):
            for e in effs:
                if e["arrays"] or e["lists"] or any(k[0] not in ("same", "temp") for k in e["accs"].values()):
                    raise Unsupported("%s: a loop that may return must have no other effect" % self.loop_id)
        # ---- arrays (R1)
        arrs = {}
        for e in effs:
            for k, (arr, old, vz) in e["arrays"].items():
                arrs.setdefault(k, (arr, old))
        for k, (arr, old) in arrs.items():
            if _mentions(old, [var]):
                raise Unsupported("%s: array depends on the generic index" % self.loop_id)
            items = []
            for cond, e in zip(conds, effs):
                if k in e["arrays"]:
                    items.append((cond, e["arrays"][k][2]))
                else:
                    items.append((cond, z3.Select(old, var)))
            merged = _ite_chain(items)
            j = z3.Int(c.fresh("j"))
            body = z3.If(z3.And(j >= lo, j < hi), z3.substitute(merged, (var, j)), z3.Select(old, j))
            arr.arr = z3.Lambda([j], body)
        # ---- lists (R2)
        lnames = set()
        for e in effs:
            lnames |= set(e["lists"])
        list_blocks = {}
        for n in lnames:
            if not all(n in e["lists"] for e in effs):
                raise Unsupported("%s: list %s is appended to on some branches only" % (self.loop_id, n))
            m = {len(e["lists"][n][2]) for e in effs}
            if len(m) != 1:
                raise Unsupported("%s: list %s grows by different amounts" % (self.loop_id, n))
            m = m.pop()
            lst, l0 = effs[0]["lists"][n][0], effs[0]["lists"][n][1]
            blk = []
            for u in range(m):
                elems = [e["lists"][n][2][u] for e in effs]
                blk.append(_merge_values(conds, elems, self.loop_id))
            list_blocks[n] = (lst, l0, blk)
        self._close_scope()
        out = []
        for n in self.stored:
            kinds = [e["accs"][n] for e in effs]
            init = self.entered[n]
            ks = {k[0] for k in kinds}
            if ks <= {"same"}:
                out.append(init)
            elif ks <= {"temp"}:
                out.append(UNBOUND_AFTER)
            elif ks <= {"sum", "same"} or ks <= {"prod", "same"}:
                kind = "sum" if "sum" in ks else "prod"
                h = self.havoc[n]
                isint = z3.is_int(h)
                unit = (z3.IntVal(0) if isint else z3.RealVal(0)) if kind == "sum" else \
                       (z3.IntVal(1) if isint else z3.RealVal(1))
                terms = []
                for cond, k in zip(conds, kinds):
                    t = k[1] if k[0] == kind else unit
                    terms.append((cond, t))
                if not isint:
                    terms = [(cd, z3.ToReal(t) if z3.is_int(t) else t) for cd, t in terms]
                term = z3.simplify(_ite_chain(terms))
                g = fold_fn(c, kind, var, term, self.loop_id)
                total = g(lo, hi)
                iz = zint(init) if isint else zreal(init)
                z = iz + total if kind == "sum" else iz * total
                out.append(SInt(z) if z3.is_int(z) else SReal(z))
            else:
                raise Unsupported("%s: local %s is updated differently on different branches (%s)"
                                  % (self.loop_id, n, sorted(ks)))
        for n, (lst, l0, blk) in list_blocks.items():
            if type(lst) is not list:
                raise Unsupported("%s: append to a %s in a generic iteration" % (self.loop_id, type(lst).__name__))
            prefix = list(lst[:l0])
            del lst[:]
            lst.__class__ = GenList
            GenList.__init__(lst, prefix, lo, hi, var, blk)
        return tuple(out) if len(out) != 1 else (out[0],)


def _merge_values(conds, vals, where):
    if len(vals) == 1:
        return vals[0]
    if all(isinstance(v, (SInt, int)) and not isinstance(v, bool) for v in vals):
        return SInt(_ite_chain([(cd, zint(v)) for cd, v in zip(conds, vals)]))
    if all(_num(v) for v in vals):
        return SReal(_ite_chain([(cd, zreal(v)) for cd, v in zip(conds, vals)]))
    from .merge import merge_objects
    return merge_objects(conds, vals, where)


UNBOUND_AFTER = UNBOUND


def _valid(c, f):
    c.nsolver_calls += 1
    c.solver.push()
    c.solver.add(z3.Not(f))
    r = c.solver.check()
    c.solver.pop()
    return r == z3.unsat


class _FoldApp:
    """callable G(lo, hi) that also passes the enclosing generic variables the term depends on"""

    def __init__(self, fn, params):
        self.fn, self.params = fn, params

    def __call__(self, lo, hi):
        return self.fn(lo, hi, *self.params)


def fold_fn(c, kind, var, term, loop_id):
    """ghost fold function G(lo, hi, p...) for `term` (a z3 term in `var` and in the generic variables
    p of enclosing generic iterations), with its unfolding facts registered in c.folds so that the
    discharge step and the spec side can use them"""
    if not hasattr(c, "folds"):
        c.folds = []
    params = [v for v in c.scopes if v.get_id() != var.get_id() and _mentions(term, [v])]
    for f in c.folds:
        if f["kind"] == kind and len(f["params"]) == len(params) and \
                z3.eq(z3.substitute(f["term"], [(f["var"], var)] + list(zip(f["params"], params))), term):
            return _FoldApp(f["fn"], params)
    k = len(c.folds)
    rs = term.sort()
    fn = z3.Function("%s!%d" % ("SUM" if kind == "sum" else "PROD", k), z3.IntSort(), z3.IntSort(),
                     *([p.sort() for p in params] + [rs]))
    c.folds.append({"kind": kind, "var": var, "term": term, "fn": fn, "loop": loop_id, "params": params})
    return _FoldApp(fn, params)


def sum_of_symarr(a):
    c = ctx()
    j = z3.Int(c.fresh("i*"))
    term = z3.Select(a.arr, j)
    g = fold_fn(c, "sum", j, term, "sum()")
    z = g(z3.IntVal(0), a.n)
    return SInt(z) if z3.is_int(z) else SReal(z)


def fold_facts(c, exprs):
    """ground unfolding instances for every application G(a, b) occurring in exprs:
       b <= a -> G = unit ;  b > a -> G(a,b) = G(a,b-1) (+|*) term(b-1)   (one step, both ends)"""
    folds = getattr(c, "folds", [])
    if not folds:
        return []
    byname = {f["fn"].name(): f for f in folds}
    facts = []
    seen = set()
    stack = list(exprs)
    apps = {}
    while stack:
        t = stack.pop()
        if t.get_id() in seen:
            continue
        seen.add(t.get_id())
        if z3.is_quantifier(t):
            stack.append(t.body())
            continue
        if z3.is_app(t):
            if t.decl().kind() == z3.Z3_OP_UNINTERPRETED and t.decl().name() in byname and t.num_args() >= 2:
                apps[t.get_id()] = t
            stack.extend(t.children())
    for t in apps.values():
        f = byname[t.decl().name()]
        a, b = t.arg(0), t.arg(1)
        unit = (z3.IntVal(0) if z3.is_int(t) else z3.RealVal(0)) if f["kind"] == "sum" else \
               (z3.IntVal(1) if z3.is_int(t) else z3.RealVal(1))
        actual = [t.arg(2 + k) for k in range(len(f["params"]))]
        if any(_mentions(x, [f["var"]]) for x in actual):
            continue
        psub = list(zip(f["params"], actual))
        last = z3.substitute(f["term"], [(f["var"], b - 1)] + psub)
        first = z3.substitute(f["term"], [(f["var"], a)] + psub)
        fn = lambda lo_, hi_: f["fn"](lo_, hi_, *actual)
        if f["kind"] == "sum":
            facts.append(z3.Implies(b <= a, t == unit))
            facts.append(z3.Implies(b > a, t == fn(a, b - 1) + last))
            facts.append(z3.Implies(b > a, t == first + fn(a + 1, b)))
        else:
            facts.append(z3.Implies(b <= a, t == unit))
            facts.append(z3.Implies(b > a, t == fn(a, b - 1) * last))
            facts.append(z3.Implies(b > a, t == first * fn(a + 1, b)))
    return facts


def vc_loop(iterable, loop_id, tracked, stored):
    if isinstance(iterable, SymRange):
        return SymLoop(iterable.lo, iterable.hi, lambda v: SInt(v), loop_id, tracked, stored)
    if isinstance(iterable, SymArr):
        a = iterable
        return SymLoop(z3.IntVal(0), a.n, lambda v: a[SInt(v)], loop_id, tracked, stored)
    if isinstance(iterable, ReshapedSlice):
        n = iterable.length()
        if isinstance(n, SInt) or isinstance(iterable.rs.base, SymArr):
            if iterable.rank() == 1:
                return SymLoop(z3.IntVal(0), zint(n), lambda v: iterable.at(SInt(v)), loop_id, tracked, stored)
            return SymLoop(z3.IntVal(0), zint(n), lambda v: iterable[SInt(v)], loop_id, tracked, stored)
        return _Concrete([iterable[k] for k in range(n)])
    if isinstance(iterable, GenList):
        raise Unsupported("loop over a generically built list")
    if hasattr(iterable, "__vc_loop__"):
        return iterable.__vc_loop__(loop_id, tracked, stored)
    return _Concrete(iterable)


class _CompMerger(Merger):
    def __init__(self):
        self.sub_results = []


def vc_comp(fn, iterable):
    """list comprehension [fn(v) for v in iterable]"""
    if isinstance(iterable, GenList):
        raise Unsupported("comprehension over a generically built list")
    if isinstance(iterable, (SymRange, SymArr)) or \
            (isinstance(iterable, ReshapedSlice) and (isinstance(iterable.length(), SInt)
                                                      or isinstance(iterable.rs.base, SymArr))):
        c = ctx()
        if isinstance(iterable, SymRange):
            lo, hi = iterable.lo, iterable.hi
            elem = lambda v: SInt(v)
        elif isinstance(iterable, SymArr):
            lo, hi = z3.IntVal(0), iterable.n
            elem = lambda v: iterable[SInt(v)]
        else:
            lo, hi = z3.IntVal(0), zint(iterable.length())
            elem = (lambda v: iterable.at(SInt(v))) if iterable.rank() == 1 else (lambda v: iterable[SInt(v)])
        n = z3.simplify(z3.If(hi - lo >= 0, hi - lo, 0))
        if not c.branch(hi > lo):
            return SymList(SymArr(z3.IntVal(0), z3.K(z3.IntSort(), z3.RealVal(0)), "real"))
        var = z3.Int(c.fresh("i*"))
        mg = _CompMerger()
        if not hasattr(c, "loop_stack"):
            c.loop_stack = []
        results = []
        with c.generic_scope(var, z3.And(var >= lo, var < hi)):
            c.loop_stack.append(mg)
            try:
                work = [[]]
                while work:
                    mg._reset_sub(work.pop())
                    mark = len(c.pc)
                    c.solver.push()
                    e = fn(elem(var))
                    results.append((_and(mg.sub_pc), e))
                    work.extend(mg.sub_pending)
                    tail = c.pc[mark:]
                    del c.pc[mark:]
                    c.solver.pop()
                    for f in tail:
                        if not _mentions(f, [var]):
                            c.pc.append(f)
                            c.solver.add(f)
            finally:
                c.loop_stack.pop()
        e = _merge_values([cd for cd, _ in results], [v for _, v in results], "comprehension")
        if isinstance(e, (SReal, float)) or (isinstance(e, (SInt, int)) and not isinstance(e, bool)):
            isint = isinstance(e, (SInt, int))
            ez = zint(e) if isint else zreal(e)
            j = z3.Int(c.fresh("j"))
            body = z3.substitute(ez, (var, j + lo))
            return SymList(SymArr(n, z3.Lambda([j], body), "int" if isint else "real"))
        from .symseq import SymSeq
        return SymSeq(n, lambda k: _subst_value(e, var, k + lo))
    if hasattr(iterable, "__vc_comp__"):
        return iterable.__vc_comp__(fn)
    return [fn(v) for v in iterable]


def vc_in(a, b):
    """`a in b` with symbolic a"""
    from ..core import tokstr, tokparse
    if isinstance(a, tokparse.PChar):
        if isinstance(b, str):
            return a.in_str(b)
        return a.in_list(list(b))
    if isinstance(a, tokstr.TokStr) and isinstance(b, (list, tuple)):
        e = tokparse.single_enum(a)
        if e is not None:
            a = e
        else:
            alts = []
            for x in b:
                r = tokparse.equals(a, x)
                if r is True:
                    return True
                if r is not False:
                    alts.append(r.z)
            return SBool(z3.Or(*alts)) if alts else False
    if isinstance(a, SEnum) and isinstance(b, (list, tuple)):
        if all(isinstance(x, str) for x in b):
            alts = [a.z == a.index_of(x) for x in b if a.index_of(x) is not None]
            return SBool(z3.Or(*alts)) if alts else False
    if isinstance(a, (SInt, SReal)) and isinstance(b, (list, tuple, NArr)):
        items = list(b)
        if all(_num(x) for x in items):
            alts = [zreal(a) == zreal(x) for x in items]
            return SBool(z3.Or(*alts)) if alts else False
    if isinstance(b, tokstr.TokStr) or isinstance(a, tokstr.TokStr):
        from ..core import tokparse
        return tokparse.contains(b, a)
    if hasattr(b, "__vc_contains__"):
        return b.__vc_contains__(a)
    if isinstance(b, dict) and hasattr(a, "__vc_key__"):
        return a.__vc_key__() in b
    return a in b


def vc_not(x):
    if isinstance(x, SBool):
        return SBool(z3.Not(x.z))
    return not x
