"""Shadowed builtins installed in the `__builtins__` of every instrumented module.

Nothing in /repo is edited: an instrumented module is exec'd with a private
builtins dictionary in which int, float, str, bool, len, range, abs, min, max,
sum, isinstance, round and __import__ accept the proxies.
"""
import builtins as _bi
import z3

from ..core.ctx import Ctx, Unsupported
from ..core.proxies import (SReal, SInt, SBool, SEnum, zreal, zint, ctx, trunc_to_int,
                            _num, is_sym)
from .arrays import NArr, SymArr, SymRange, SymList, ReshapedSlice, _tofloat
from ..core import tokstr


class _ShadowMeta(type):
    """shadow classes compare equal to the builtin they stand for, so that
    `type(v) != int` and `type(v) == str` in the repository keep their meaning"""

    def __eq__(cls, other):
        return other is cls or other is cls._builtin or other in cls._proxies

    def __ne__(cls, other):
        return not type(cls).__eq__(cls, other)

    def __hash__(cls):
        return hash(cls._builtin)

    def __instancecheck__(cls, obj):
        return isinstance(obj, cls._builtin) or isinstance(obj, cls._proxies)

    def __subclasscheck__(cls, sub):
        return issubclass(sub, cls._builtin) or sub in cls._proxies

    def __repr__(cls):
        return "<shadow %s>" % cls._builtin.__name__


class vint(metaclass=_ShadowMeta):
    _builtin = int
    _proxies = (SInt,)

    def __new__(cls, x=0, *a):
        if isinstance(x, (SInt, SReal, SBool)):
            return trunc_to_int(x)
        if isinstance(x, tokstr.TokStr):
            return x.to_int()
        if isinstance(x, SEnum):
            return int(x.concretize(), *a)
        return int(x, *a)


class vfloat(metaclass=_ShadowMeta):
    _builtin = float
    _proxies = (SReal,)

    def __new__(cls, x=0.0):
        if isinstance(x, (SReal, SInt, SBool)):
            return _tofloat(x)
        if isinstance(x, tokstr.TokStr):
            return x.to_float()
        if isinstance(x, SEnum):
            return float(x.concretize())
        return float(x)


class vbool(metaclass=_ShadowMeta):
    _builtin = bool
    _proxies = (SBool,)

    def __new__(cls, x=False):
        if isinstance(x, SBool):
            return x
        if isinstance(x, (SInt, SReal)):
            return SBool(x.z != 0)
        return bool(x)


class vstr(metaclass=_ShadowMeta):
    _builtin = str
    _proxies = (SEnum, tokstr.TokStr)

    def __new__(cls, x="", *a):
        if isinstance(x, (SEnum, tokstr.TokStr)):
            return x
        if isinstance(x, SInt):
            return tokstr.TokStr([tokstr.IntLit(x)])
        if isinstance(x, SReal):
            return tokstr.TokStr([tokstr.FloatLit(x)])
        if isinstance(x, SBool):
            return "True" if x else "False"
        f = getattr(type(x), "__str__", None)
        if f is not None and not a and type(x).__module__.startswith("strengths"):
            return f(x)      # user-defined __str__ may return a token string (symbolic number atoms)
        return str(x, *a)

    # str.method(...) style calls are not used by the repository


def vlen(x):
    if isinstance(x, SymArr):
        return x.length()
    if isinstance(x, ReshapedSlice):
        return x.length()
    if isinstance(x, SymRange):
        return SInt(z3.If(x.hi - x.lo >= 0, x.hi - x.lo, 0))
    if hasattr(x, "sym_len"):
        return x.sym_len()
    f = getattr(type(x), "__len__", None)
    if f is not None and type(x).__module__.startswith("strengths"):
        return f(x)      # user-defined __len__ may return a symbolic int
    return len(x)


def vrange(*a):
    if any(isinstance(v, (SInt, SBool)) for v in a):
        vals = []
        for v in a:
            if isinstance(v, (SInt, SBool)):
                z = z3.simplify(zint(v))
                vals.append(z)
            else:
                vals.append(z3.IntVal(int(v)))
        if all(z3.is_int_value(v) for v in vals):
            return range(*[v.as_long() for v in vals])
        if len(vals) == 1:
            return SymRange(z3.IntVal(0), vals[0])
        if len(vals) == 2:
            return SymRange(vals[0], vals[1])
        raise Unsupported("range with a symbolic step")
    return range(*a)


def vabs(x):
    return abs(x)


def _pick(a, b, take_a):
    """value-level choice between two numbers by a symbolic condition"""
    if isinstance(a, (SInt, int)) and isinstance(b, (SInt, int)) and not isinstance(a, bool):
        return SInt(z3.If(take_a, zint(a), zint(b)))
    return SReal(z3.If(take_a, zreal(a), zreal(b)))


def vmin(*a, **kw):
    if len(a) == 1:
        seq = a[0]
        if isinstance(seq, (SymArr,)):
            raise Unsupported("min of symbolic-length array")
        a = tuple(seq)
        if not a:
            return min(a, **kw)
    if kw:
        return min(a, **kw)
    if any(is_sym(x) for x in a):
        if not all(_num(x) for x in a):
            # objects with symbolic comparison (UnitValue...): python semantics by forking
            return min(a)
        r = a[0]
        for x in a[1:]:
            r = _pick(x, r, zreal(x) < zreal(r))
        return r
    return min(a)


def vmax(*a, **kw):
    if len(a) == 1:
        seq = a[0]
        if isinstance(seq, (SymArr,)):
            raise Unsupported("max of symbolic-length array")
        a = tuple(seq)
        if not a:
            return max(a, **kw)
    if kw:
        return max(a, **kw)
    if any(is_sym(x) for x in a):
        if not all(_num(x) for x in a):
            return max(a)
        r = a[0]
        for x in a[1:]:
            r = _pick(x, r, zreal(x) > zreal(r))
        return r
    return max(a)


def vsum(seq, start=0):
    if isinstance(seq, SymArr):
        from .loops import sum_of_symarr
        return sum_of_symarr(seq) + start
    if isinstance(seq, ReshapedSlice):
        return vsum(seq.to_array(), start)
    return sum(seq, start)


def visinstance(obj, cls):
    return isinstance(obj, cls)


def vround(x, *a):
    if is_sym(x):
        raise Unsupported("round() of a symbolic value")
    return round(x, *a)


def vlist(x=()):
    if isinstance(x, SymArr):
        return SymList(x)
    if isinstance(x, ReshapedSlice):
        return vlist(x.to_array())
    return list(x)


def make_builtins(import_hook):
    d = dict(_bi.__dict__)
    d.update({
        "int": vint, "float": vfloat, "bool": vbool, "str": vstr,
        "len": vlen, "range": vrange, "abs": vabs, "min": vmin, "max": vmax,
        "sum": vsum, "round": vround,
        "__import__": import_hook,
    })
    return d
