"""Array values used by the numpy shim.

NArr   : concrete length, elements python numbers or proxies (numpy 1-D semantics
         for the operations the repository uses)
SymArr : symbolic length n (z3 Int) and a z3 array Int -> Real|Int
SymRange: range(n) with symbolic n
"""
import z3
from ..core.ctx import Ctx, Unsupported
from ..core.proxies import (SReal, SNpReal, SInt, SBool, SEnum, zreal, zint, ctx, real_div,
                            trunc_to_int, _num)


class _NDMeta(type):
    def __eq__(cls, other):
        if cls is ndarray:
            return other is cls or (isinstance(other, type) and issubclass(other, ndarray))
        if other is ndarray:
            return True
        return other is cls

    def __ne__(cls, other):
        return not type(cls).__eq__(cls, other)

    def __hash__(cls):
        return id(cls)


class ndarray(metaclass=_NDMeta):
    """stands for numpy.ndarray in `type(x) == np.ndarray`"""
    pass


def _tofloat(x):
    if isinstance(x, (SReal,)):
        return x
    if isinstance(x, (SInt, SBool)):
        return SReal(zreal(x))
    if isinstance(x, (int, float)):
        return float(x)
    if isinstance(x, str):
        return float(x)
    try:
        import numpy as _np
        if isinstance(x, _np.generic):
            return float(x)
    except ImportError:
        pass
    raise TypeError("float() argument must be a string or a real number, not %r" % type(x).__name__)


def _toint(x):
    if isinstance(x, SInt):
        return x
    if isinstance(x, (SReal, SBool)):
        return trunc_to_int(x)
    return int(x)


class NArr(ndarray):
    def __init__(self, items, dtype=None):
        items = list(items)
        if dtype is float:
            items = [_tofloat(x) for x in items]
            items = [SNpReal(x.z) if isinstance(x, SReal) and not x.np else x for x in items]
        elif dtype is int:
            items = [_toint(x) for x in items]
        self.items = items
        self.dtype = dtype

    # -- numpy-like surface ------------------------------------------------
    def __len__(self):
        return len(self.items)

    def __iter__(self):
        return iter(self.items)

    def _idx(self, i):
        if isinstance(i, SInt):
            v = z3.simplify(i.z)
            if z3.is_int_value(v):
                return v.as_long()
            # symbolic index into a concrete array: fork over positions
            c = ctx()
            n = len(self.items)
            for k in range(n):
                if c.branch(v == k):
                    return k
            for k in range(1, n + 1):
                if c.branch(v == -k):
                    return n - k
            raise IndexError("index out of bounds")
        return i

    def __getitem__(self, i):
        i = self._idx(i)
        if isinstance(i, slice):
            return NArr(self.items[i], self.dtype)
        if isinstance(i, tuple):
            raise Unsupported("multi-dimensional index on 1-D array")
        return self.items[i]

    def __setitem__(self, i, v):
        i = self._idx(i)
        if self.dtype is float:
            v = _tofloat(v)
        elif self.dtype is int:
            v = _toint(v)
        self.items[i] = v

    def tolist(self):
        return list(self.items)

    def copy(self):
        return NArr(self.items, self.dtype)

    def __deepcopy__(self, memo):
        import copy as _c
        return NArr([_c.deepcopy(x, memo) for x in self.items], self.dtype)

    @property
    def size(self):
        return len(self.items)

    @property
    def shape(self):
        return (len(self.items),)

    def reshape(self, shape):
        return Reshaped(self, shape)

    def _ew(self, o, f):
        if isinstance(o, (NArr, list, tuple)):
            oi = list(o)
            if len(oi) != len(self.items):
                raise ValueError("operands could not be broadcast together")
            return NArr([f(a, b) for a, b in zip(self.items, oi)], float)
        if isinstance(o, SymArr):
            raise Unsupported("NArr op SymArr")
        if _num(o):
            return NArr([f(a, o) for a in self.items], float)
        return NotImplemented

    def __add__(self, o): return self._ew(o, lambda a, b: a + b)
    def __radd__(self, o): return self._ew(o, lambda a, b: b + a)
    def __sub__(self, o): return self._ew(o, lambda a, b: a - b)
    def __rsub__(self, o): return self._ew(o, lambda a, b: b - a)
    def __mul__(self, o): return self._ew(o, lambda a, b: a * b)
    def __rmul__(self, o): return self._ew(o, lambda a, b: b * a)
    def __truediv__(self, o): return self._ew(o, lambda a, b: a / b)
    def __rtruediv__(self, o): return self._ew(o, lambda a, b: b / a)
    def __mod__(self, o): return self._ew(o, lambda a, b: a % b)
    def __rmod__(self, o): return self._ew(o, lambda a, b: b % a)
    def __neg__(self): return NArr([-a for a in self.items], self.dtype)
    def __abs__(self): return NArr([abs(a) for a in self.items], self.dtype)

    def __eq__(self, o):
        return NotImplemented

    __hash__ = None

    def __repr__(self):
        return "NArr(%r)" % (self.items,)


class SymRange:
    """range(lo, hi) with a symbolic bound; iterated by the loop rules"""

    def __init__(self, lo, hi):
        self.lo = lo
        self.hi = hi

    def __len__(self):
        raise Unsupported("len(range(symbolic)) at the C level")


def apply_array_facts(term):
    """element facts of input arrays (e.g. 0 <= env[i] < E) for every select on them in term"""
    c = Ctx.current
    facts = getattr(c, "array_facts", None)
    if not facts:
        return
    t = z3.simplify(term)
    seen = set()
    stack = [t]
    while stack:
        x = stack.pop()
        if x.get_id() in seen:
            continue
        seen.add(x.get_id())
        if z3.is_select(x) and x.arg(0).get_id() in facts:
            key = ("af", x.get_id())
            if key not in c.positive or c.scopes:
                c.positive.add(key)
                c.assume(facts[x.arg(0).get_id()](x))
        if z3.is_app(x):
            stack.extend(x.children())


class SymArr(ndarray):
    """1-D array of symbolic length"""

    def __init__(self, n, arr, sort="real"):
        self.n = n            # z3 Int
        self.arr = arr        # z3 Array(Int, Real|Int)
        self.sort = sort

    @staticmethod
    def fresh(name, n, sort="real"):
        c = ctx()
        zs = z3.RealSort() if sort == "real" else z3.IntSort()
        a = z3.Array(name, z3.IntSort(), zs)
        c.inputs[name] = a
        return SymArr(zint(n), a, sort)

    def constrain(self, fact):
        """register an element-wise fact of this (input) array: fact(z3 element) -> z3 Bool"""
        c = ctx()
        if not hasattr(c, "array_facts"):
            c.array_facts = {}
        c.array_facts[self.arr.get_id()] = fact

    def wrap(self, z):
        return SNpReal(z) if self.sort == "real" else SInt(z)

    def length(self):
        return SInt(self.n)

    def __len__(self):
        raise Unsupported("len() of a symbolic-length array reached the C level (shadow len missing)")

    def __iter__(self):
        raise Unsupported("iteration over a symbolic-length array outside a rewritten loop")

    def _index(self, i):
        """python index semantics: wrap negatives, IndexError when out of range"""
        c = ctx()
        iz = zint(i)
        if c.branch(z3.And(iz >= 0, iz < self.n)):
            return iz
        if c.branch(z3.And(iz < 0, iz >= -self.n)):
            return iz + self.n
        raise IndexError("index out of bounds for symbolic array")

    def __getitem__(self, i):
        if isinstance(i, slice):
            raise Unsupported("slice of a symbolic array")
        iz = self._index(i)
        sel = z3.Select(self.arr, iz)
        apply_array_facts(sel)
        return self.wrap(sel)

    def __setitem__(self, i, v):
        iz = self._index(i)
        if self.sort == "int" and isinstance(self, SymList) and not isinstance(v, (SInt, int, SBool)):
            # a python list holds anything: promote the element sort
            j = z3.Int(ctx().fresh("j"))
            self.arr = z3.Lambda([j], z3.ToReal(z3.Select(self.arr, j)))
            self.sort = "real"
        vz = zreal(v) if self.sort == "real" else zint(v)
        c = ctx()
        lp = getattr(c, "loop_stack", None)
        if lp:
            lp[-1].note_store(self, iz, vz, self.arr)
        self.arr = z3.Store(self.arr, iz, vz)

    def copy(self):
        return SymArr(self.n, self.arr, self.sort)

    def __deepcopy__(self, memo):
        return SymArr(self.n, self.arr, self.sort)

    def tolist(self):
        return SymList(self)

    def reshape(self, shape):
        return Reshaped(self, shape)

    def _ew(self, o, f):
        j = z3.Int(ctx().fresh("j"))
        a = z3.Select(self.arr, j)
        if self.sort == "int":
            a = z3.ToReal(a)
        if isinstance(o, SymArr):
            b = z3.Select(o.arr, j)
            if o.sort == "int":
                b = z3.ToReal(b)
        elif _num(o):
            b = zreal(o)
        else:
            return NotImplemented
        return SymArr(self.n, z3.Lambda([j], f(a, b)), "real")

    def __add__(self, o): return self._ew(o, lambda a, b: a + b)
    def __radd__(self, o): return self._ew(o, lambda a, b: b + a)
    def __sub__(self, o): return self._ew(o, lambda a, b: a - b)
    def __rsub__(self, o): return self._ew(o, lambda a, b: b - a)
    def __mul__(self, o): return self._ew(o, lambda a, b: a * b)
    def __rmul__(self, o): return self._ew(o, lambda a, b: b * a)

    def __truediv__(self, o):
        # numpy: division by zero gives inf/nan with a warning, no exception
        if isinstance(o, SymArr):
            raise Unsupported("array / array")
        return self._ew(o, lambda a, b: a / b)

    def __rtruediv__(self, o):
        return self._ew(o, lambda a, b: b / a)

    def __neg__(self):
        j = z3.Int(ctx().fresh("j"))
        return SymArr(self.n, z3.Lambda([j], -z3.Select(self.arr, j)), self.sort)

    def __abs__(self):
        j = z3.Int(ctx().fresh("j"))
        a = z3.Select(self.arr, j)
        return SymArr(self.n, z3.Lambda([j], z3.If(a >= 0, a, -a)), self.sort)

    def __eq__(self, o):
        return NotImplemented

    __hash__ = None

    def __repr__(self):
        return "SymArr(n=%s)" % self.n


class SymList(SymArr):
    """python list view of a SymArr (result of tolist / of a rewritten comprehension)"""

    def __init__(self, a):
        SymArr.__init__(self, a.n, a.arr, a.sort)


class Reshaped:
    """A.reshape(shape)[i, j, k]  ==  flat[(i*b + j)*c + k]   (row-major, numpy default)"""

    def __init__(self, base, shape):
        self.base = base
        self.shape = tuple(shape)

    def __getitem__(self, idx):
        if not isinstance(idx, tuple):
            idx = (idx,)
        shape = self.shape
        if len(idx) > len(shape):
            raise IndexError("too many indices")
        full = all(not isinstance(i, slice) for i in idx) and len(idx) == len(shape)
        if full:
            flat = 0
            for i, dim in zip(idx, shape):
                c = ctx() if Ctx.current is not None else None
                if c is not None and (isinstance(i, SInt) or isinstance(dim, SInt)):
                    iz, dz = zint(i), zint(dim)
                    if not c.branch(z3.And(iz >= 0, iz < dz)):
                        if c.branch(z3.And(iz < 0, iz >= -dz)):
                            i = i + dim
                        else:
                            raise IndexError("index out of bounds for axis")
                else:
                    if not (-dim <= i < dim):
                        raise IndexError("index out of bounds for axis")
                    if i < 0:
                        i += dim
                flat = flat * dim + i
            return self.base[flat]
        rs = ReshapedSlice(self, idx)
        if rs.rank() == 1:
            return rs.to_array()          # numpy: a 1-D view is an ndarray
        return rs


class ReshapedSlice(ndarray):
    """partial index with full slices ':' only; supports [k] on the remaining axis,
    len(), iteration by the loop rules through SymArr/NArr conversion"""

    def __init__(self, rs, idx):
        self.rs = rs
        idx = tuple(idx) + (slice(None),) * (len(rs.shape) - len(idx))
        for i in idx:
            if isinstance(i, slice) and (i.start, i.stop, i.step) != (None, None, None):
                raise Unsupported("non-trivial slice of reshaped array")
        self.idx = idx
        self.free = [k for k, i in enumerate(idx) if isinstance(i, slice)]

    def rank(self):
        return len(self.free)

    def at(self, *ks):
        full = list(self.idx)
        for ax, k in zip(self.free, ks):
            full[ax] = k
        return self.rs[tuple(full)]

    def __getitem__(self, k):
        if isinstance(k, tuple):
            return self.at(*k)
        if len(self.free) == 1:
            return self.at(k)
        full = list(self.idx)
        full[self.free[0]] = k
        rs = ReshapedSlice(self.rs, tuple(full))
        return rs.to_array() if rs.rank() == 1 else rs

    def length(self):
        return self.rs.shape[self.free[0]]

    def to_array(self):
        """materialise a rank-1 slice as an array value"""
        if len(self.free) != 1:
            raise Unsupported("rank-%d slice as array" % len(self.free))
        n = self.length()
        if isinstance(n, SInt) or isinstance(self.rs.base, SymArr):
            c = ctx()
            j = z3.Int(c.fresh("j"))
            c.scopes.append(j)
            try:
                c_pc = len(c.pc)
                c.solver.push()
                c.solver.add(z3.And(j >= 0, j < zint(n)))
                c.pc.append(z3.And(j >= 0, j < zint(n)))
                e = self.at(SInt(j))
            finally:
                del c.pc[c_pc:]
                c.solver.pop()
                c.scopes.pop()
            base = self.rs.base
            sort = base.sort if isinstance(base, SymArr) else "real"
            ez = zreal(e) if sort == "real" else zint(e)
            return SymArr(zint(n), z3.Lambda([j], ez), sort)
        return NArr([self.at(k) for k in range(n)], getattr(self.rs.base, "dtype", None))
