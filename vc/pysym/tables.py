"""Module-level constant tables of units.py seen through uninterpreted functions.

`_units_conversion_dict[kind][symbol]` is read as TBL_kind(index of symbol) > 0 (proof
mode: the obligations then hold for *any* positive table; that the real table has the
SI values is the finite, exhaustive check C06.b).  Keys may be concrete strings or SEnum.
"""
import z3
from ..core.proxies import SReal, SEnum, ctx
from ..core.ctx import Ctx

KINDS = ("space", "time", "quantity")
TBL = {k: z3.Function("tbl_" + k, z3.IntSort(), z3.RealSort()) for k in KINDS}


def tbl_value(kind, idx):
    """z3 term of the table entry; registers positivity with the current path"""
    t = TBL[kind](idx)
    c = Ctx.current
    if c is not None and (t.get_id() not in c.positive or c.scopes):
        c.mark_positive(t)
        c.assume(t > 0)
    return t


class SymTable:
    def __init__(self, kind, real, labels):
        self.kind = kind
        self.real = dict(real)
        self.labels = tuple(labels)

    def __getitem__(self, key):
        if Ctx.current is None:
            return self.real[key]
        from ..core import tokparse
        e = tokparse.single_enum(key)
        if e is not None:
            key = e
        if isinstance(key, SEnum):
            if key.domain != self.labels:
                idx = key.reindex(self.labels)
                c = Ctx.current
                if c.branch(idx < 0):
                    raise KeyError(key)
                return SReal(tbl_value(self.kind, idx))
            return SReal(tbl_value(self.kind, key.z))
        if key not in self.real:
            raise KeyError(key)
        return SReal(tbl_value(self.kind, z3.IntVal(self.labels.index(key))))

    def keys(self):
        return self.real.keys()

    def __contains__(self, k):
        return k in self.real

    def __iter__(self):
        return iter(self.real)

    def items(self):
        return self.real.items()


def patch_units(mod):
    labels = mod._units_labels_dict
    conv = mod._units_conversion_dict
    mod._units_conversion_dict_real = conv
    mod._units_conversion_dict = {k: SymTable(k, conv[k], labels[k]) for k in conv}
