"""Model of the part of numpy the repository uses (trusted base A4; conformance-tested
against the real numpy by selftest/conformance).

array, zeros, concatenate, ndarray, load/save (opaque).
"""
import types
import z3

from ..core.ctx import Unsupported
from ..core.proxies import SReal, SInt, SBool, zint, zreal, ctx
from .arrays import NArr, SymArr, SymList, ndarray, ReshapedSlice, SymRange
from .loops import GenList


def _dt(dtype):
    """dtype arguments written in repository modules are the shadow classes"""
    if dtype is None:
        return None
    if dtype == float:
        return float
    if dtype == int:
        return int
    if dtype == bool:
        return int
    return dtype


def _array(v, dtype=None):
    dtype = _dt(dtype)
    if isinstance(v, ReshapedSlice):
        v = v.to_array()
    if isinstance(v, SymArr):
        if dtype is float and v.sort == "int":
            j = z3.Int(ctx().fresh("j"))
            return SymArr(v.n, z3.Lambda([j], z3.ToReal(z3.Select(v.arr, j))), "real")
        if dtype is int and v.sort == "real":
            j = z3.Int(ctx().fresh("j"))
            x = z3.Select(v.arr, j)
            return SymArr(v.n, z3.Lambda([j], z3.If(x >= 0, z3.ToInt(x), -z3.ToInt(-x))), "int")
        return SymArr(v.n, v.arr, v.sort)
    if isinstance(v, GenList):
        return _genlist_to_array(v, dtype)
    if isinstance(v, NArr):
        return NArr(v.items, dtype if dtype is not None else v.dtype)
    if isinstance(v, (list, tuple)):
        items = list(v)
        if dtype is None and not items:
            return NArr([], float)          # numpy: empty array is float64
        if dtype is None:
            # numpy infers: all numbers -> float/int array ; otherwise object array
            from ..core.proxies import _num
            if all(_num(x) and not isinstance(x, bool) for x in items):
                if all(isinstance(x, (int, SInt)) for x in items):
                    return NArr(items, int)
                return NArr(items, float)
            return NArr(items, None)
        return NArr(items, dtype)
    try:
        import numpy as _np
        if isinstance(v, _np.ndarray):
            return NArr(v.tolist(), dtype)
    except ImportError:
        pass
    raise Unsupported("np.array(%s)" % type(v).__name__)


def _genlist_to_array(v, dtype):
    if v.prefix or v.m != 1:
        raise Unsupported("np.array of a generic list with prefix / block")
    c = ctx()
    e = v.block[0]
    j = z3.Int(c.fresh("j"))
    isint = isinstance(e, (SInt, int)) and dtype is not float
    ez = zint(e) if isint else zreal(e)
    return SymArr(z3.simplify(v.hi - v.lo), z3.Lambda([j], z3.substitute(ez, (v.var, j + v.lo))),
                  "int" if isint else "real")


def _zeros(n, dtype=float):
    dtype = _dt(dtype)
    if isinstance(n, SInt):
        zero = z3.RealVal(0) if dtype is float else z3.IntVal(0)
        return SymArr(n.z, z3.K(z3.IntSort(), zero), "real" if dtype is float else "int")
    return NArr([0.0 if dtype is float else 0] * int(n), dtype)


def _concatenate(parts):
    parts = [_array(p) if not isinstance(p, (NArr, SymArr)) else p for p in parts]
    if all(isinstance(p, NArr) for p in parts):
        items = []
        for p in parts:
            items.extend(p.items)
        dt = float if any(p.dtype is float for p in parts) else \
            (parts[0].dtype if parts else float)
        return NArr(items, dt)
    # symbolic: piecewise array
    c = ctx()
    j = z3.Int(c.fresh("j"))
    total = z3.IntVal(0)
    pieces = []
    sort = "int" if all((p.sort if isinstance(p, SymArr) else ("int" if p.dtype is int else "real")) == "int"
                        for p in parts if not (isinstance(p, NArr) and not p.items)) else "real"
    for p in parts:
        if isinstance(p, NArr):
            if not p.items:
                continue
            n = z3.IntVal(len(p.items))
            arr = z3.K(z3.IntSort(), z3.RealVal(0) if sort == "real" else z3.IntVal(0))
            for k, x in enumerate(p.items):
                arr = z3.Store(arr, k, zreal(x) if sort == "real" else zint(x))
        else:
            n = p.n
            arr = p.arr
            if sort == "real" and p.sort == "int":
                jj = z3.Int(c.fresh("j"))
                arr = z3.Lambda([jj], z3.ToReal(z3.Select(arr, jj)))
        pieces.append((total, n, arr))
        total = z3.simplify(total + n)
    body = z3.RealVal(0) if sort == "real" else z3.IntVal(0)
    for (off, n, arr) in reversed(pieces):
        body = z3.If(z3.And(j >= off, j < off + n), z3.Select(arr, j - off), body)
    return SymArr(total, z3.Lambda([j], body), sort)


def _opaque(name):
    def f(*a, **k):
        raise Unsupported("numpy.%s is not interpreted (I/O layer)" % name)
    return f


def module():
    m = types.ModuleType("numpy")
    m.array = _array
    m.zeros = _zeros
    m.concatenate = _concatenate
    m.ndarray = ndarray
    m.load = _opaque("load")
    m.save = _opaque("save")
    m.float64 = float
    m.int64 = int
    return m
