"""Model of the part of ctypes that librdengine.py uses (trusted base, A4): c_int, c_double, c_char_p,
`T * n` array types, and a recording stand-in for the loaded library."""
import types
import z3

from ..core.ctx import Unsupported
from ..core.proxies import SInt, SReal, SBool, zint, zreal, ctx
from .arrays import SymArr, NArr


class CValue:
    def __init__(self, kind, value):
        self.kind, self.value = kind, value

    def __repr__(self):
        return "C%s(%r)" % (self.kind, self.value)


class _CMeta(type):
    def __mul__(cls, n):
        return CArrayType(cls, n)

    __rmul__ = __mul__


class c_int(metaclass=_CMeta):
    kind = "int"

    def __new__(cls, v=0):
        return CValue("int", v)


class c_double(metaclass=_CMeta):
    kind = "real"

    def __new__(cls, v=0.0):
        return CValue("real", v)


class c_char_p(metaclass=_CMeta):
    kind = "str"

    def __new__(cls, v=b""):
        return CValue("str", v)


class CArray(SymArr):
    """ctypes array of symbolic or concrete length (zero-initialised)"""
    pass


class CArrayType:
    def __init__(self, elt, n):
        self.elt, self.n = elt, n

    def __call__(self):
        kind = self.elt.kind
        zero = z3.IntVal(0) if kind == "int" else z3.RealVal(0)
        n = self.n
        nz = zint(n) if isinstance(n, (SInt, SBool)) else z3.IntVal(int(n))
        a = CArray(nz, z3.K(z3.IntSort(), zero), kind)
        a.concrete_len = None if isinstance(n, (SInt, SBool)) else int(n)
        return a


def module():
    m = types.ModuleType("ctypes")
    m.c_int, m.c_double, m.c_char_p = c_int, c_double, c_char_p
    m.CDLL = lambda *a, **k: (_ for _ in ()).throw(Unsupported("ctypes.CDLL is not interpreted"))
    return m


class _Fn:
    def __init__(self, lib, name):
        self.lib, self.name = lib, name
        self.restype = None

    def __call__(self, *args):
        self.lib.calls.append((self.name, args))
        h = self.lib.handlers.get(self.name)
        if h is not None:
            return h(*args)
        return 0


class RecordingLib:
    """stands for the loaded engine library: records every foreign call; return values / output buffers are
    provided by the harness through `handlers`"""

    def __init__(self):
        self.calls = []
        self.handlers = {}
        self._fns = {}

    def __getattr__(self, name):
        if name.startswith("engineexport_"):
            if name not in self._fns:
                self._fns[name] = _Fn(self, name)
            return self._fns[name]
        raise AttributeError(name)

    def __deepcopy__(self, memo):
        return self
