"""Mechanical AST rewrites applied to repository modules when they are loaded by the
checker (the file on disk is untouched; the text compiled is the file as it is now).

R-in    `a in b`, `a not in b`                 -> _vc_in(a, b) / not _vc_in(a, b)
R-comp  `[e for v in it]` (one generator, no if) inside a function
                                               -> _vc_comp(lambda v: e, it)
R-for   `for T in it: body` inside a function  -> loop driven by __vc_loop(...) so that a
         symbolic iterable is handled by the loop rules (generic iteration + R1/R2/R3);
         a concrete iterable runs exactly as before.
R-while `while c: body` inside a function      -> same with __vc_while (invariant cut), only
         when a sidecar invariant is registered for that loop; otherwise untouched.

Counts of each rewrite per module are recorded for the evidence files.
"""
import ast


class _Names(ast.NodeVisitor):
    def __init__(self):
        self.loads, self.stores = set(), set()

    def visit_Name(self, n):
        (self.stores if isinstance(n.ctx, (ast.Store, ast.Del)) else self.loads).add(n.id)

    def visit_FunctionDef(self, n):
        self.stores.add(n.name)       # do not descend: nested function bodies have own scope
        for d in n.decorator_list:
            self.visit(d)
        # free variables of nested functions count as loads
        sub = _Names()
        for s in n.body:
            sub.visit(s)
        self.loads |= (sub.loads - sub.stores - {a.arg for a in n.args.args})

    def visit_Lambda(self, n):
        sub = _Names()
        sub.visit(n.body)
        self.loads |= (sub.loads - {a.arg for a in n.args.args})

    def visit_ListComp(self, n):
        self._comp(n, [n.elt])

    def visit_SetComp(self, n):
        self._comp(n, [n.elt])

    def visit_GeneratorExp(self, n):
        self._comp(n, [n.elt])

    def visit_DictComp(self, n):
        self._comp(n, [n.key, n.value])

    def _comp(self, n, elts):
        sub = _Names()
        for g in n.generators:
            sub.visit(g.target)
            sub.visit(g.iter)
            for c in g.ifs:
                sub.visit(c)
        for e in elts:
            sub.visit(e)
        self.loads |= (sub.loads - sub.stores)


def names_in(nodes):
    v = _Names()
    for n in nodes:
        v.visit(n)
    return v


def _function_locals(fn):
    v = _Names()
    for s in fn.body:
        v.visit(s)
    params = {a.arg for a in fn.args.args + fn.args.kwonlyargs + fn.args.posonlyargs}
    if fn.args.vararg:
        params.add(fn.args.vararg.arg)
    if fn.args.kwarg:
        params.add(fn.args.kwarg.arg)
    glob = set()
    for n in ast.walk(fn):
        if isinstance(n, (ast.Global, ast.Nonlocal)):
            glob |= set(n.names)
    return (v.stores | params) - glob


class Rewriter(ast.NodeTransformer):
    def __init__(self, modname):
        self.modname = modname
        self.counts = {"in": 0, "comp": 0, "for": 0, "while": 0}
        self.fn_stack = []        # (qualname, locals, loop counter dict)
        self.class_stack = []
        self.loops = {}           # loop id -> (lineno, kind)

    # -- scopes ---------------------------------------------------------------
    def visit_ClassDef(self, node):
        self.class_stack.append(node.name)
        self.generic_visit(node)
        self.class_stack.pop()
        return node

    def visit_FunctionDef(self, node):
        parts = ([self.fn_stack[-1][0]] if self.fn_stack else []) + self.class_stack + [node.name]
        q = ".".join(parts)
        self.fn_stack.append((q, _function_locals(node), {"n": 0}, node.name))
        saved_classes = self.class_stack
        self.class_stack = []
        self.generic_visit(node)
        self.class_stack = saved_classes
        self.fn_stack.pop()
        return node

    # -- R-in -----------------------------------------------------------------
    def visit_Compare(self, node):
        self.generic_visit(node)
        if len(node.ops) == 1 and isinstance(node.ops[0], (ast.In, ast.NotIn)):
            self.counts["in"] += 1
            call = ast.Call(func=ast.Name(id="_vc_in", ctx=ast.Load()),
                            args=[node.left, node.comparators[0]], keywords=[])
            if isinstance(node.ops[0], ast.NotIn):
                call = ast.Call(func=ast.Name(id="_vc_not", ctx=ast.Load()), args=[call], keywords=[])
            return ast.copy_location(call, node)
        return node

    # -- R-comp ---------------------------------------------------------------
    def visit_ListComp(self, node):
        self.generic_visit(node)
        if not self.fn_stack:
            return node
        if len(node.generators) != 1:
            return node
        g = node.generators[0]
        if g.ifs or g.is_async or not isinstance(g.target, ast.Name):
            return node
        self.counts["comp"] += 1
        lam = ast.Lambda(
            args=ast.arguments(posonlyargs=[], args=[ast.arg(arg=g.target.id)], kwonlyargs=[],
                               kw_defaults=[], defaults=[]),
            body=node.elt)
        call = ast.Call(func=ast.Name(id="_vc_comp", ctx=ast.Load()), args=[lam, g.iter], keywords=[])
        return ast.copy_location(call, node)

    # -- R-for ----------------------------------------------------------------
    def visit_For(self, node):
        if not self.fn_stack or node.orelse:
            self.generic_visit(node)
            return node
        qual, flocals, ctr, _ = self.fn_stack[-1]
        ctr["n"] += 1
        loop_id = "%s.%s#%d" % (self.modname, qual, ctr["n"])
        self.loops[loop_id] = (node.lineno, "for")
        self.generic_visit(node)
        self.counts["for"] += 1

        nm = names_in(node.body)
        tgt = names_in([node.target])
        tracked = sorted(((nm.loads | nm.stores) & flocals) - tgt.stores)
        stored = sorted((nm.stores & flocals) - tgt.stores)
        L = "_vcL%d" % ctr["n"]

        def name(n, store=False):
            return ast.Name(id=n, ctx=ast.Store() if store else ast.Load())

        def getter(n):
            # value of a local that may still be unbound
            return ast.Call(func=name("_vc_get"),
                            args=[ast.Lambda(args=ast.arguments(posonlyargs=[], args=[], kwonlyargs=[],
                                                                kw_defaults=[], defaults=[]),
                                             body=name(n))], keywords=[])

        def tup_vals():
            return ast.Tuple(elts=[getter(n) for n in tracked], ctx=ast.Load())

        def assign_back(call):
            # (a, b) = call   restricted to *stored* names
            if not stored:
                return ast.Expr(value=call)
            return ast.Assign(targets=[ast.Tuple(elts=[name(n, True) for n in stored], ctx=ast.Store())],
                              value=call)

        def lcall(meth, *args):
            return ast.Call(func=ast.Attribute(value=name(L), attr=meth, ctx=ast.Load()),
                            args=list(args), keywords=[])

        sym = ast.Attribute(value=name(L), attr="sym", ctx=ast.Load())

        # body instrumentation
        body = _ExitRewriter(L).rewrite(node.body)
        enter = ast.If(test=sym, body=[assign_back(lcall("enter", tup_vals()))], orelse=[])
        leave = ast.If(test=sym, body=[ast.Expr(value=lcall("leave", tup_vals()))], orelse=[])
        handler = ast.ExceptHandler(
            type=name("_vc_LoopReturn"), name="_vc_e",
            body=[ast.If(test=ast.Compare(left=ast.Attribute(value=name("_vc_e"), attr="loop", ctx=ast.Load()),
                                          ops=[ast.IsNot()], comparators=[name(L)]),
                         body=[ast.Raise(exc=None, cause=None)], orelse=[])])
        guarded = ast.Try(body=[enter] + body + [leave], handlers=[handler], orelse=[], finalbody=[])
        new_for = ast.For(target=node.target,
                          iter=ast.Attribute(value=name(L), attr="it", ctx=ast.Load()),
                          body=[guarded], orelse=[])
        setup = ast.Assign(
            targets=[name(L, True)],
            value=ast.Call(func=name("_vc_loop"),
                           args=[node.iter, ast.Constant(value=loop_id),
                                 ast.Constant(value=tuple(tracked)), ast.Constant(value=tuple(stored))],
                           keywords=[]))
        fin = ast.If(test=sym, body=[assign_back(lcall("exit", tup_vals()))], orelse=[])
        ret = ast.If(test=ast.BoolOp(op=ast.And(), values=[sym, lcall("takes_return")]),
                     body=[ast.Return(value=lcall("return_value"))], orelse=[])
        out = [setup, new_for, fin, ret]
        for n in out:
            ast.copy_location(n, node)
            ast.fix_missing_locations(n)
        return out


class _ExitRewriter(ast.NodeTransformer):
    """inside one loop body: break / continue / return of *this* loop tell the loop object"""

    def __init__(self, L):
        self.L = L

    def _call(self, meth):
        return ast.If(
            test=ast.Attribute(value=ast.Name(id=self.L, ctx=ast.Load()), attr="sym", ctx=ast.Load()),
            body=[ast.Expr(value=ast.Call(
                func=ast.Attribute(value=ast.Name(id=self.L, ctx=ast.Load()), attr=meth, ctx=ast.Load()),
                args=[], keywords=[]))], orelse=[])

    def visit_For(self, node):
        # nested loop: its break/continue are its own; returns still leave us
        node.body = [_ReturnOnly(self).visit(s) for s in node.body]
        return node

    def visit_While(self, node):
        node.body = [_ReturnOnly(self).visit(s) for s in node.body]
        return node

    def visit_FunctionDef(self, node):
        return node

    def visit_Lambda(self, node):
        return node

    def _block(self, stmts):
        out = []
        for s in stmts:
            r = self.visit(s)
            if isinstance(r, list):
                out.extend(r)
            else:
                out.append(r)
        return out

    def generic_visit(self, node):
        for field in ("body", "orelse", "finalbody"):
            v = getattr(node, field, None)
            if isinstance(v, list) and v and isinstance(v[0], ast.stmt):
                setattr(node, field, self._block(v))
        if isinstance(node, ast.Try):
            for h in node.handlers:
                h.body = self._block(h.body)
        return node

    def visit_Break(self, node):
        return [self._call("on_break"), node]

    def visit_Continue(self, node):
        return [self._call("on_continue"), node]

    def visit_Return(self, node):
        return [self._ret(node), node]

    def _ret(self, node):
        val = node.value if node.value is not None else ast.Constant(value=None)
        import copy as _c
        return ast.If(
            test=ast.Attribute(value=ast.Name(id=self.L, ctx=ast.Load()), attr="sym", ctx=ast.Load()),
            body=[ast.Expr(value=ast.Call(
                func=ast.Attribute(value=ast.Name(id=self.L, ctx=ast.Load()), attr="on_return", ctx=ast.Load()),
                args=[_c.deepcopy(val)], keywords=[]))], orelse=[])

    def rewrite(self, body):
        return self._block(body)


class _ReturnOnly(ast.NodeTransformer):
    def __init__(self, outer):
        self.outer = outer

    def visit_FunctionDef(self, node):
        return node

    def visit_Lambda(self, node):
        return node

    def generic_visit(self, node):
        for field in ("body", "orelse", "finalbody"):
            v = getattr(node, field, None)
            if isinstance(v, list) and v and isinstance(v[0], ast.stmt):
                out = []
                for s in v:
                    r = self.visit(s)
                    out.extend(r if isinstance(r, list) else [r])
                setattr(node, field, out)
        return node

    def visit_Return(self, node):
        return [self.outer._ret(node), node]


def rewrite_module(source, filename, modname):
    tree = ast.parse(source, filename)
    rw = Rewriter(modname)
    tree = rw.visit(tree)
    ast.fix_missing_locations(tree)
    return tree, rw
