"""ite-merge of python objects produced on different sub-paths of a generic iteration."""
import copy
import z3
from ..core.ctx import Unsupported
from ..core.proxies import SReal, SInt, SBool, SEnum, zreal, zint, _num


def merge_objects(conds, vals, where):
    v0 = vals[0]
    if all(v is v0 for v in vals):
        return v0
    if all(isinstance(v, (SInt, int)) and not isinstance(v, bool) for v in vals):
        return SInt(_chain(conds, [zint(v) for v in vals]))
    if all(_num(v) for v in vals):
        return SReal(_chain(conds, [zreal(v) for v in vals]))
    if all(isinstance(v, str) for v in vals) and len(set(vals)) == 1:
        return v0
    if all(isinstance(v, (str, SEnum)) for v in vals):
        # strings from one finite domain
        doms = [v.domain for v in vals if isinstance(v, SEnum)]
        dom = doms[0] if doms else tuple(sorted(set(vals)))
        idx = []
        for v in vals:
            if isinstance(v, SEnum):
                if v.domain != dom:
                    raise Unsupported("%s: merging strings of different domains" % where)
                idx.append(v.z)
            else:
                if v not in dom:
                    raise Unsupported("%s: merging strings of different domains" % where)
                idx.append(z3.IntVal(dom.index(v)))
        kind = next((v.kind for v in vals if isinstance(v, SEnum)), "str")
        return SEnum(kind, dom, _chain(conds, idx))
    t = type(v0)
    if all(type(v) is t for v in vals) and hasattr(v0, "__dict__"):
        keys = set(vars(v0))
        if all(set(vars(v)) == keys for v in vals):
            n = copy.copy(v0)
            for k in keys:
                object.__setattr__(n, k, merge_objects(conds, [vars(v)[k] for v in vals], where))
            return n
    if all(v is None for v in vals):
        return None
    raise Unsupported("%s: cannot merge values of types %s" % (where, sorted({type(v).__name__ for v in vals})))


def _chain(conds, zs):
    val = zs[-1]
    for cd, z in reversed(list(zip(conds, zs))[:-1]):
        val = z3.If(cd, z, val)
    return val
