"""Symbolic proxy values (z3-backed) that real Python code can compute with.

SReal  : Python float / numbers treated as a mathematical real (assumption A1)
SInt   : Python int (mathematical)
SBool  : result of a symbolic comparison; bool() asks the path engine
SEnum  : a str drawn from a finite list of concrete strings (index symbolic)

All proxies are immutable, deep-copy stable and registered as numbers.Number
where Python numbers would be.
"""
import numbers
from fractions import Fraction
import z3

from .ctx import Ctx, Unsupported, PathAbort

# ---------------------------------------------------------------------------
# uninterpreted functions shared by code and spec
PW = z3.Function("pw", z3.RealSort(), z3.IntSort(), z3.RealSort())       # x^n, n integer
FMOD = z3.Function("fmod", z3.RealSort(), z3.RealSort(), z3.RealSort())   # python float %
ROOT = {}                                                                  # q -> root_q
PYDIV = z3.Function("pydiv", z3.IntSort(), z3.IntSort(), z3.IntSort())    # python //
PYMOD = z3.Function("pymod", z3.IntSort(), z3.IntSort(), z3.IntSort())    # python % on ints
TRUNC = z3.Function("trunc", z3.RealSort(), z3.IntSort())                 # python int(x)


def root_fn(q):
    if q not in ROOT:
        ROOT[q] = z3.Function("root%d" % q, z3.RealSort(), z3.RealSort())
    return ROOT[q]


def ctx():
    c = Ctx.current
    if c is None:
        raise RuntimeError("symbolic value used outside an exploration")
    return c


def float_to_fraction(x):
    """floats are read as the simplest rational that prints back to them (A1)"""
    if isinstance(x, bool):
        return Fraction(int(x))
    if isinstance(x, int):
        return Fraction(x)
    if isinstance(x, Fraction):
        return x
    x = float(x)
    if x != x or x in (float("inf"), float("-inf")):
        raise Unsupported("non-finite float constant")
    for den in (1, 2, 3, 6, 7, 9, 10, 12, 60, 100, 1000, 3600):
        f = Fraction(x).limit_denominator(den)
        if float(f) == x:
            return f
    return Fraction(repr(x))


def zreal(x):
    """python number / proxy -> z3 Real"""
    if isinstance(x, SReal):
        return x.z
    if isinstance(x, SInt):
        return z3.ToReal(x.z)
    if isinstance(x, SBool):
        return z3.If(x.z, z3.RealVal(1), z3.RealVal(0))
    if isinstance(x, (bool, int, float, Fraction)):
        f = float_to_fraction(x)
        return z3.RealVal(str(f))
    try:
        import numpy as _np
        if isinstance(x, _np.generic):
            return zreal(x.item())
    except ImportError:
        pass
    raise TypeError("not a real: %r" % (x,))


def zint(x):
    if isinstance(x, SInt):
        return x.z
    if isinstance(x, SBool):
        return z3.If(x.z, z3.IntVal(1), z3.IntVal(0))
    if isinstance(x, bool):
        return z3.IntVal(int(x))
    if isinstance(x, int):
        return z3.IntVal(x)
    try:
        import numpy as _np
        if isinstance(x, _np.integer):
            return z3.IntVal(int(x))
    except ImportError:
        pass
    raise TypeError("not an int: %r" % (x,))


def is_sym(x):
    return isinstance(x, (SReal, SInt, SBool, SEnum))


def is_intlike(x):
    return isinstance(x, (SInt, int)) and not isinstance(x, bool) or isinstance(x, bool)


class _Proxy:
    __slots__ = ("z",)

    def __deepcopy__(self, memo):
        return self

    def __copy__(self):
        return self

    def __hash__(self):
        return id(self)

    def __reduce__(self):
        raise Unsupported("pickling a symbolic value")


class SBool(_Proxy):
    __slots__ = ()

    def __init__(self, z):
        self.z = z

    def __bool__(self):
        return ctx().branch(self.z)

    def __and__(self, o):
        return SBool(z3.And(self.z, _zb(o)))

    __rand__ = __and__

    def __or__(self, o):
        return SBool(z3.Or(self.z, _zb(o)))

    __ror__ = __or__

    def __invert__(self):
        return SBool(z3.Not(self.z))

    def __eq__(self, o):
        if isinstance(o, (SBool, bool)):
            return SBool(self.z == _zb(o))
        return SInt(zint(self)) == o

    def __ne__(self, o):
        r = self.__eq__(o)
        return SBool(z3.Not(r.z))

    __hash__ = _Proxy.__hash__

    def __int__(self):
        return SInt(zint(self))

    def __index__(self):
        raise Unsupported("symbolic bool used as index")

    def __repr__(self):
        return "SBool(%s)" % self.z

    # arithmetic on bools (rare): go through ints
    def __add__(self, o): return SInt(zint(self)) + o
    def __radd__(self, o): return o + SInt(zint(self))
    def __mul__(self, o): return SInt(zint(self)) * o
    def __rmul__(self, o): return o * SInt(zint(self))
    def __sub__(self, o): return SInt(zint(self)) - o
    def __rsub__(self, o): return o - SInt(zint(self))


def _zb(o):
    if isinstance(o, SBool):
        return o.z
    if isinstance(o, bool):
        return z3.BoolVal(o)
    if isinstance(o, (SInt, SReal)):
        return o.z != 0
    return z3.BoolVal(bool(o))


def _num(o):
    return isinstance(o, (SReal, SInt, SBool, bool, int, float, Fraction)) or _np_number(o)


def _np_number(o):
    try:
        import numpy as _np
        return isinstance(o, _np.generic) and not isinstance(o, (_np.str_, _np.bytes_))
    except ImportError:
        return False


def _real_operands(a, b):
    return zreal(a), zreal(b)


class SReal(_Proxy):
    __slots__ = ()
    np = False      # True for values read from arrays: numpy scalar semantics
                    # (x/0 and x%0 give inf/nan with a warning instead of raising)

    def __init__(self, z):
        if isinstance(z, str):
            z = z3.Real(z)
        self.z = z

    def _mk(self, o, z):
        if self.np or getattr(o, "np", False):
            return SNpReal(z)
        return SReal(z)

    # ---- arithmetic -------------------------------------------------------
    def __add__(self, o):
        if not _num(o): return NotImplemented
        return self._mk(o, self.z + zreal(o))

    def __radd__(self, o):
        if not _num(o): return NotImplemented
        return self._mk(o, zreal(o) + self.z)

    def __sub__(self, o):
        if not _num(o): return NotImplemented
        return self._mk(o, self.z - zreal(o))

    def __rsub__(self, o):
        if not _num(o): return NotImplemented
        return self._mk(o, zreal(o) - self.z)

    def __mul__(self, o):
        if not _num(o): return NotImplemented
        return self._mk(o, self.z * zreal(o))

    def __rmul__(self, o):
        if not _num(o): return NotImplemented
        return self._mk(o, zreal(o) * self.z)

    def __truediv__(self, o):
        if not _num(o): return NotImplemented
        if self.np or getattr(o, "np", False):
            return SNpReal(self.z / zreal(o))
        return real_div(self.z, zreal(o))

    def __rtruediv__(self, o):
        if not _num(o): return NotImplemented
        if self.np or getattr(o, "np", False):
            return SNpReal(zreal(o) / self.z)
        return real_div(zreal(o), self.z)

    def __mod__(self, o):
        if not _num(o): return NotImplemented
        if self.np or getattr(o, "np", False):
            return SNpReal(FMOD(self.z, zreal(o)))
        return real_mod(self.z, zreal(o))

    def __rmod__(self, o):
        if not _num(o): return NotImplemented
        if self.np or getattr(o, "np", False):
            return SNpReal(FMOD(zreal(o), self.z))
        return real_mod(zreal(o), self.z)

    def __pow__(self, o):
        if not _num(o): return NotImplemented
        return real_pow(self.z, o)

    def __rpow__(self, o):
        if not _num(o): return NotImplemented
        return real_pow(zreal(o), self)

    def __neg__(self):
        return self._mk(self, -self.z)

    def __pos__(self):
        return self

    def __abs__(self):
        return self._mk(self, z3.If(self.z >= 0, self.z, -self.z))

    # ---- comparisons ------------------------------------------------------
    def __eq__(self, o):
        if not _num(o): return NotImplemented
        return SBool(self.z == zreal(o))

    def __ne__(self, o):
        if not _num(o): return NotImplemented
        return SBool(self.z != zreal(o))

    def __lt__(self, o):
        if not _num(o): return NotImplemented
        return SBool(self.z < zreal(o))

    def __le__(self, o):
        if not _num(o): return NotImplemented
        return SBool(self.z <= zreal(o))

    def __gt__(self, o):
        if not _num(o): return NotImplemented
        return SBool(self.z > zreal(o))

    def __ge__(self, o):
        if not _num(o): return NotImplemented
        return SBool(self.z >= zreal(o))

    __hash__ = _Proxy.__hash__

    def __bool__(self):
        return ctx().branch(self.z != 0)

    def __float__(self):
        raise Unsupported("float() of a symbolic real reached the C level")

    def __int__(self):
        raise Unsupported("int() of a symbolic real reached the C level")

    def __repr__(self):
        return "SReal(%s)" % self.z


class SNpReal(SReal):
    __slots__ = ()
    np = True


def real_div(a, b):
    c = ctx()
    if not c.is_positive(b):
        if c.branch(b == 0):
            raise ZeroDivisionError("float division by zero")
    return SReal(a / b)


def real_mod(a, b):
    c = ctx()
    if not c.is_positive(b):
        if c.branch(b == 0):
            raise ZeroDivisionError("float modulo")
    return SReal(FMOD(a, b))


def _linear_int(e):
    """decompose an Int z3 term into (const, {atom_id: (atom, coeff)}) or None"""
    e = z3.simplify(e, som=True)
    const = 0
    atoms = {}

    def add(term, k):
        nonlocal const
        if z3.is_int_value(term):
            const += k * term.as_long()
        elif z3.is_add(term):
            for ch in term.children():
                add(ch, k)
        elif z3.is_sub(term):
            ch = term.children()
            add(ch[0], k)
            for x in ch[1:]:
                add(x, -k)
        elif z3.is_app(term) and term.decl().kind() == z3.Z3_OP_UMINUS:
            add(term.arg(0), -k)
        elif z3.is_mul(term):
            ch = term.children()
            coeff = 1
            rest = []
            for x in ch:
                if z3.is_int_value(x):
                    coeff *= x.as_long()
                else:
                    rest.append(x)
            if not rest:
                const += k * coeff
            else:
                t = _int_product(rest)
                i = t.get_id()
                old = atoms.get(i, (t, 0))
                atoms[i] = (t, old[1] + k * coeff)
        else:
            i = term.get_id()
            old = atoms.get(i, (term, 0))
            atoms[i] = (term, old[1] + k)

    add(e, 1)
    return const, {i: v for i, v in atoms.items() if v[1] != 0}


def _int_product(terms):
    """canonical product of Int terms (sorted, flattened) so that n*e and e*n are one atom"""
    flat = []
    for x in terms:
        if z3.is_mul(x):
            flat.extend(x.children())
        else:
            flat.append(x)
    flat.sort(key=lambda x: str(x))
    t = flat[0]
    for x in flat[1:]:
        t = t * x
    return t


def _factors(b):
    """multiplicative decomposition of a Real term: list of (atom, +1|-1)"""
    out = []

    def walk(t, sgn):
        if z3.is_mul(t):
            for ch in t.children():
                walk(ch, sgn)
        elif z3.is_div(t):
            walk(t.arg(0), sgn)
            walk(t.arg(1), -sgn)
        else:
            out.append((t, sgn))

    walk(b, 1)
    return out


def _ipow(x, k):
    """x^k for a concrete integer k (product form)"""
    if k == 0:
        return z3.RealVal(1)
    neg = k < 0
    k = abs(k)
    r = x
    for _ in range(k - 1):
        r = r * x
    return z3.RealVal(1) / r if neg else r


def pw_term(base, n):
    """x^n with symbolic integer n over a base known to be positive: normalised
    product of atomic pw(atom, var) applications (power laws applied syntactically:
    (xy)^n = x^n y^n, (x/y)^n = x^n / y^n, x^(n+m) = x^n x^m, x^(kn) = (x^n)^k, x^k = x...x)"""
    c = ctx()
    const, atoms = _linear_int(n)
    num = z3.RealVal(1)
    facs = _factors(base)
    res = None
    for (atom, sgn) in facs:
        if z3.is_rational_value(atom) and atom.as_fraction() == 1:
            continue
        t = _ipow(atom, sgn * const) if const != 0 else None
        inner = None
        if z3.is_app(atom) and atom.decl().kind() == z3.Z3_OP_UNINTERPRETED and atom.decl().name() == "pw" \
                and c.is_positive(atom.arg(0)):
            inner = (atom.arg(0), atom.arg(1))      # (x^n)^v = x^(n*v)
        for _, (v, k) in sorted(atoms.items(), key=lambda kv: str(kv[1][0])):
            if inner is not None:
                p = PW(inner[0], _int_product([inner[1], v]))
            else:
                p = PW(atom, v)
            c.mark_positive(p)
            c.assume(p > 0)
            pk = _ipow(p, sgn * k)
            t = pk if t is None else t * pk
        if t is not None:
            res = t if res is None else res * t
    return res if res is not None else num


def real_pow(base, e):
    """python ** on reals.  e: python number or proxy"""
    c = ctx()
    if isinstance(e, SBool):
        e = SInt(zint(e))
    if isinstance(e, (bool,)):
        e = int(e)
    if isinstance(e, float) and e == int(e) and abs(e) < 64:
        e = int(e)
    if isinstance(e, int):
        if e < 0 and not c.is_positive(base):
            if c.branch(base == 0):
                raise ZeroDivisionError("0.0 cannot be raised to a negative power")
        if abs(e) > 16:
            raise Unsupported("large concrete exponent")
        return SReal(_ipow(base, e))
    if isinstance(e, SInt):
        cst, atoms = _linear_int(e.z)
        if not atoms:
            return real_pow(base, cst)
        if c.is_positive(base):
            return SReal(pw_term(base, e.z))
        # base of unknown sign: keep the application opaque, give the basic facts
        ez = e.z
        p = PW(base, ez)
        c.assume(z3.Implies(ez == 0, p == 1))
        c.assume(z3.Implies(ez == 1, p == base))
        c.assume(z3.Implies(ez == 2, p == base * base))
        c.assume(z3.Implies(ez == 3, p == base * base * base))
        c.assume(z3.Implies(ez == 4, p == base * base * base * base))
        c.assume(z3.Implies(base > 0, p > 0))
        c.assume(z3.Implies(z3.And(base == 0, ez > 0), p == 0))
        if c.branch(z3.And(base == 0, ez < 0)):
            raise ZeroDivisionError("0.0 cannot be raised to a negative power")
        return SReal(p)
    if isinstance(e, (float, Fraction)):
        f = float_to_fraction(e)
        if f.denominator > 12:
            raise Unsupported("irrational-looking exponent %r" % (e,))
        return rational_pow(base, f)
    if isinstance(e, SReal):
        raise Unsupported("symbolic real exponent")
    raise TypeError("bad exponent %r" % (e,))


def rational_pow(base, f):
    """x^(p/q) for x >= 0 (python raises/returns complex for x < 0: unsupported)"""
    c = ctx()
    p, q = f.numerator, f.denominator
    if q == 1:
        return real_pow(base, p)
    if not c.is_positive(base):
        if c.branch(base < 0):
            raise Unsupported("fractional power of a negative number (complex result)")
    # pull perfect q-th powers of positive atoms out of the root: root_q(a * t^q) = root_q(a) * t
    outside = z3.RealVal(1)
    counts = {}
    order = []
    for atom, sgn in _factors(base):
        i = atom.get_id()
        if i not in counts:
            counts[i] = [atom, 0]
            order.append(i)
        counts[i][1] += sgn
    inside = None
    pulled = False
    for i in order:
        atom, n = counts[i]
        if z3.is_rational_value(atom) and atom.as_fraction() == 1:
            continue
        m = 0
        if c.is_positive(atom) and abs(n) >= q:
            m = (abs(n) // q) * (1 if n > 0 else -1)
            outside = outside * _ipow(atom, m)
            pulled = True
        rest = n - m * q
        if rest != 0:
            t = _ipow(atom, rest)
            inside = t if inside is None else inside * t
    if pulled:
        inner_base = inside if inside is not None else z3.RealVal(1)
        if z3.is_rational_value(inner_base) and inner_base.as_fraction() == 1:
            return SReal(_ipow(outside, p))
        inner = rational_pow(inner_base, Fraction(1, q))
        return SReal(_ipow(outside * inner.z, p))
    r = root_fn(q)(base)
    c.assume(root_fact(q, base), defer=True)
    c.assume(z3.Implies(base > 0, r > 0))
    if c.is_positive(base):
        c.mark_positive(r)
    if p < 0 and not c.is_positive(base):
        if c.branch(base == 0):
            raise ZeroDivisionError("0.0 cannot be raised to a negative power")
    return SReal(_ipow(r, p))


class SInt(_Proxy):
    __slots__ = ()

    def __init__(self, z):
        if isinstance(z, str):
            z = z3.Int(z)
        self.z = z

    def _other(self, o):
        """returns ('int', z) or ('real', z) or None"""
        if isinstance(o, (SInt, SBool)) or (isinstance(o, int)):
            return "int", zint(o)
        if isinstance(o, (SReal, float, Fraction)) or _np_number(o):
            return "real", zreal(o)
        return None

    def _arith(self, o, f, swap=False):
        k = self._other(o)
        if k is None:
            return NotImplemented
        if k[0] == "int":
            a, b = (k[1], self.z) if swap else (self.z, k[1])
            return SInt(f(a, b))
        a, b = (k[1], z3.ToReal(self.z)) if swap else (z3.ToReal(self.z), k[1])
        return SReal(f(a, b))

    def __add__(self, o): return self._arith(o, lambda a, b: a + b)
    def __radd__(self, o): return self._arith(o, lambda a, b: a + b, True)
    def __sub__(self, o): return self._arith(o, lambda a, b: a - b)
    def __rsub__(self, o): return self._arith(o, lambda a, b: a - b, True)
    def __mul__(self, o): return self._arith(o, lambda a, b: a * b)
    def __rmul__(self, o): return self._arith(o, lambda a, b: a * b, True)

    def __truediv__(self, o):
        if not _num(o): return NotImplemented
        return real_div(z3.ToReal(self.z), zreal(o))

    def __rtruediv__(self, o):
        if not _num(o): return NotImplemented
        return real_div(zreal(o), z3.ToReal(self.z))

    def __floordiv__(self, o):
        k = self._other(o)
        if k is None or k[0] != "int": return NotImplemented
        return int_floordiv(self.z, k[1])

    def __rfloordiv__(self, o):
        k = self._other(o)
        if k is None or k[0] != "int": return NotImplemented
        return int_floordiv(k[1], self.z)

    def __mod__(self, o):
        k = self._other(o)
        if k is None: return NotImplemented
        if k[0] == "real":
            return real_mod(z3.ToReal(self.z), k[1])
        return int_mod(self.z, k[1])

    def __rmod__(self, o):
        k = self._other(o)
        if k is None: return NotImplemented
        if k[0] == "real":
            return real_mod(k[1], z3.ToReal(self.z))
        return int_mod(k[1], self.z)

    def __pow__(self, o):
        if isinstance(o, int) and not isinstance(o, bool) and 0 <= o <= 8:
            r = z3.IntVal(1)
            for _ in range(o):
                r = r * self.z
            return SInt(r)
        return real_pow(z3.ToReal(self.z), o)

    def __rpow__(self, o):
        if not _num(o): return NotImplemented
        return real_pow(zreal(o), self)

    def __neg__(self): return SInt(-self.z)
    def __pos__(self): return self
    def __abs__(self): return SInt(z3.If(self.z >= 0, self.z, -self.z))

    def _cmp(self, o, f):
        k = self._other(o)
        if k is None:
            return NotImplemented
        if k[0] == "int":
            return SBool(f(self.z, k[1]))
        return SBool(f(z3.ToReal(self.z), k[1]))

    def __eq__(self, o):
        return self._cmp(o, lambda a, b: a == b)

    def __ne__(self, o):
        return self._cmp(o, lambda a, b: a != b)

    def __lt__(self, o): return self._cmp(o, lambda a, b: a < b)
    def __le__(self, o): return self._cmp(o, lambda a, b: a <= b)
    def __gt__(self, o): return self._cmp(o, lambda a, b: a > b)
    def __ge__(self, o): return self._cmp(o, lambda a, b: a >= b)

    __hash__ = _Proxy.__hash__

    def __bool__(self):
        return ctx().branch(self.z != 0)

    def __index__(self):
        # python sequence indexing with a symbolic int: one path per feasible value
        return ctx().choose(self.z)

    def __int__(self):
        raise Unsupported("int() of a symbolic int reached the C level")

    def __float__(self):
        raise Unsupported("float() of a symbolic int reached the C level")

    def __repr__(self):
        return "SInt(%s)" % self.z


def int_floordiv(a, b):
    """python floor division via quotient/remainder witnesses (sign of r follows b)"""
    c = ctx()
    if c.branch(b == 0):
        raise ZeroDivisionError("integer division or modulo by zero")
    q, r = _divmod(a, b)
    return SInt(q)


def int_mod(a, b):
    c = ctx()
    if c.branch(b == 0):
        raise ZeroDivisionError("integer division or modulo by zero")
    q, r = _divmod(a, b)
    return SInt(r)


def divmod_fact(a, b):
    q, r = PYDIV(a, b), PYMOD(a, b)
    return z3.Implies(b != 0, z3.And(a == b * q + r,
                                     z3.If(b > 0, z3.And(0 <= r, r < b), z3.And(b < r, r <= 0))))


def _divmod(a, b):
    """q = pydiv(a,b), r = pymod(a,b) with a = b*q + r, 0 <= r < b (b>0) or b < r <= 0 (b<0).
    (native div/mod terms with a symbolic divisor make z3 answer unknown; this encoding
    does not.)  The defining fact is assumed here and re-instantiated at discharge time
    for every application that occurs in a query (hint_facts)."""
    c = ctx()
    if z3.is_int_value(b) and z3.is_int_value(a):
        q, r = divmod(a.as_long(), b.as_long())
        return z3.IntVal(q), z3.IntVal(r)
    c.assume(divmod_fact(a, b))
    return PYDIV(a, b), PYMOD(a, b)


def trunc_to_int(x):
    """python int(x) for a real: truncation toward zero"""
    if isinstance(x, SInt):
        return x
    if isinstance(x, SBool):
        return SInt(zint(x))
    z = zreal(x)
    z = z3.simplify(z)
    # ToReal(i) -> i
    if z3.is_app(z) and z.decl().kind() == z3.Z3_OP_TO_REAL:
        return SInt(z.arg(0))
    c = ctx()
    c.assume(trunc_fact(z))
    return SInt(TRUNC(z))


def trunc_fact(z):
    kr = z3.ToReal(TRUNC(z))
    return z3.If(z >= 0, z3.And(kr <= z, z < kr + 1), z3.And(kr >= z, z > kr - 1))


def root_fact(q, base):
    r = root_fn(q)(base)
    return z3.Implies(base >= 0, z3.And(_ipow(r, q) == base, r >= 0, z3.Implies(base > 0, r > 0)))


def hint_facts(exprs, extra_positive=()):
    """ground instances of the defining facts of the ghost functions, for every
    application occurring in `exprs` (after simplification / beta reduction)"""
    facts = {}
    seen = set()
    stack = list(exprs)
    roots = {f.name(): q for q, f in ROOT.items()}
    while stack:
        t = stack.pop()
        i = t.get_id()
        if i in seen:
            continue
        seen.add(i)
        if z3.is_quantifier(t):
            stack.append(t.body())
            continue
        if z3.is_app(t):
            d = t.decl()
            k = d.kind()
            if k == z3.Z3_OP_UNINTERPRETED and t.num_args() > 0:
                nm = d.name()
                f = None
                if nm == "pydiv" or nm == "pymod":
                    f = divmod_fact(t.arg(0), t.arg(1))
                elif nm == "trunc":
                    f = trunc_fact(t.arg(0))
                elif nm in roots:
                    f = root_fact(roots[nm], t.arg(0))
                elif nm == "pw":
                    b, e = t.arg(0), t.arg(1)
                    f = z3.And(z3.Implies(b > 0, t > 0), z3.Implies(e == 0, t == 1),
                               z3.Implies(e == 1, t == b))
                if f is not None and not _has_var(f):
                    fid = f.get_id()
                    if fid not in facts:
                        facts[fid] = f
                        stack.append(f)
            stack.extend(t.children())
    return list(facts.values())


def _has_var(t):
    seen = set()
    stack = [t]
    while stack:
        x = stack.pop()
        if x.get_id() in seen:
            continue
        seen.add(x.get_id())
        if z3.is_var(x):
            return True
        if z3.is_quantifier(x):
            continue
        stack.extend(x.children())
    return False


# ---------------------------------------------------------------------------
class SEnum(_Proxy):
    """a string that is one of `domain` (tuple of distinct concrete strings)"""
    __slots__ = ("domain", "kind")

    def __init__(self, kind, domain, z):
        self.kind = kind
        self.domain = tuple(domain)
        self.z = z        # z3 Int index into domain

    def index_of(self, s):
        try:
            return self.domain.index(s)
        except ValueError:
            return None

    def __eq__(self, o):
        if isinstance(o, str):
            i = self.index_of(o)
            if i is None:
                return False
            return SBool(self.z == i)
        if isinstance(o, SEnum):
            if o.domain == self.domain:
                return SBool(self.z == o.z)
            alts = []
            for i, s in enumerate(self.domain):
                j = o.index_of(s)
                if j is not None:
                    alts.append(z3.And(self.z == i, o.z == j))
            if not alts:
                return False
            return SBool(z3.Or(*alts))
        return False

    def __ne__(self, o):
        r = self.__eq__(o)
        if isinstance(r, SBool):
            return SBool(z3.Not(r.z))
        return not r

    __hash__ = _Proxy.__hash__

    def reindex(self, labels):
        """z3 Int: position of this string in another list of labels (-1 if absent)"""
        if tuple(labels) == self.domain:
            return self.z
        r = z3.IntVal(-1)
        for i, s in reversed(list(enumerate(self.domain))):
            if s in labels:
                r = z3.If(self.z == i, z3.IntVal(list(labels).index(s)), r)
        return z3.simplify(r)

    def concretize(self):
        """fork over the domain: returns the concrete string of this path"""
        c = ctx()
        v = z3.simplify(self.z)
        if z3.is_int_value(v):
            return self.domain[v.as_long()]
        k = c.choose(self.z, len(self.domain))
        return self.domain[k]

    def __str__(self):
        return self.concretize()

    def __repr__(self):
        return "SEnum(%s,%s)" % (self.kind, self.z)

    def __add__(self, o):
        from . import tokstr
        return tokstr.concat(self, o)

    def __radd__(self, o):
        from . import tokstr
        return tokstr.concat(o, self)

    def encode(self, *a):
        return self.concretize().encode(*a)


for _c in (SReal, SNpReal, SInt, SBool):
    numbers.Number.register(_c)
numbers.Real.register(SReal)
numbers.Integral.register(SInt)


# ---------------------------------------------------------------------------
# helpers used by harnesses and shims
def sym_real(name, positive=False, nonzero=False):
    c = ctx()
    z = z3.Real(name)
    c.inputs[name] = z
    if positive:
        c.assume(z > 0)
        c.mark_positive(z)
    if nonzero:
        c.assume(z != 0)
    return SReal(z)


def sym_int(name, lo=None, hi=None):
    c = ctx()
    z = z3.Int(name)
    c.inputs[name] = z
    if lo is not None:
        c.assume(z >= lo)
    if hi is not None:
        c.assume(z <= hi)
    return SInt(z)


def sym_bool(name):
    c = ctx()
    z = z3.Bool(name)
    c.inputs[name] = z
    return SBool(z)


def sym_enum(name, kind, domain):
    c = ctx()
    z = z3.Int(name)
    c.inputs[name] = z
    c.assume(z >= 0)
    c.assume(z < len(domain))
    return SEnum(kind, domain, z)
