"""Symbolic face of the harness API (see api.py)."""
import z3
from .api import BaseApi, KIND_LABELS, Outcome
from .ctx import Ctx, Unsupported, PathAbort
from . import proxies as P
from .proxies import SReal, SInt, SBool, SEnum, zreal, zint


class SymApi(BaseApi):
    mode = "sym"

    def __init__(self, ctx, inst):
        self.ctx = ctx
        self.inst = inst
        self.lemmas = 0

    def mod(self, name):
        return self.inst[name]

    # ---- inputs --------------------------------------------------------
    def real(self, name, positive=False, nonzero=False, lo=None, hi=None):
        r = P.sym_real(name, positive=positive, nonzero=nonzero)
        if lo is not None:
            self.ctx.assume(r.z >= zreal(lo))
        if hi is not None:
            self.ctx.assume(r.z <= zreal(hi))
        return r

    def int(self, name, lo, hi, draw=None):
        return P.sym_int(name, lo, hi)

    def num(self, x):
        return x

    def bool(self, name):
        return P.sym_bool(name)

    def choice(self, name, n):
        k = P.sym_int(name, 0, n - 1)
        return self.ctx.choose(k.z, n)

    def enum(self, name, kind, domain=None):
        return P.sym_enum(name, kind, domain if domain is not None else KIND_LABELS[kind])

    def length(self, name, lo=0, hi=None):
        return P.sym_int(name, lo, None)

    def array(self, name, n, positive=False, nonzero=False, sort="real"):
        from ..pysym.arrays import SymArr, NArr
        if isinstance(n, int):
            items = [self.real("%s[%d]" % (name, k), positive=positive, nonzero=nonzero) if sort == "real"
                     else P.sym_int("%s[%d]" % (name, k)) for k in range(n)]
            return items
        a = SymArr.fresh(name, n, sort)
        if positive:
            a.constrain(lambda e: e > 0)
        elif nonzero:
            a.constrain(lambda e: e != 0)
        return a

    def constrain_array(self, a, lo, hi):
        """elements of input array a lie in [lo, hi)"""
        a.constrain(lambda e: z3.And(e >= lo, e < hi))

    def index(self, name, n):
        k = P.sym_int(name, 0, None)
        self.ctx.assume(k.z < zint(n))
        return k

    def assume(self, cond):
        self.ctx.assume(self._z(cond), check=True)

    # ---- spec vocabulary -------------------------------------------------
    def tbl(self, kind, sym):
        from ..pysym.tables import tbl_value
        from . import tokparse
        e = tokparse.single_enum(sym)
        if e is not None:
            sym = e
        if isinstance(sym, SEnum):
            return SReal(tbl_value(kind, sym.reindex(KIND_LABELS[kind])))
        return SReal(tbl_value(kind, z3.IntVal(KIND_LABELS[kind].index(sym))))

    def pw(self, base, n):
        if isinstance(n, int):
            return P.real_pow(zreal(base), n)
        return P.real_pow(zreal(base), n)

    def root(self, q, x):
        return P.rational_pow(zreal(x), P.Fraction(1, q))

    def fmod(self, a, b):
        return SReal(P.FMOD(zreal(a), zreal(b)))

    def lemma_fmod(self, a, b, lam):
        """python float modulo is positively homogeneous (assumption A-fmod)"""
        a, b, lam = zreal(a), zreal(b), zreal(lam)
        self.lemmas += 1
        self.ctx.assume(z3.Implies(lam > 0, P.FMOD(lam * a, lam * b) == lam * P.FMOD(a, b)))

    def check_fmod(self, oid, result, x, y, S):
        """result*S == fmod(x, y) for a result computed as fmod(u, v) in units of scale S.
        Steps: (1) u == x/S and v == y/S are proved (pure real arithmetic);
        (2) congruence gives result == fmod(x/S, y/S);
        (3) homogeneity instance fmod(x, y) == S*fmod(x/S, y/S), S > 0 (assumption A-fmod)."""
        rz = z3.simplify(zreal(result))
        x, y, S = zreal(x), zreal(y), zreal(S)
        if z3.is_app(rz) and rz.decl().kind() == z3.Z3_OP_UNINTERPRETED and rz.decl().name() == "fmod":
            self.ctx.oblige(oid + ".arg0", rz.arg(0) == x / S, "ensures")
            self.ctx.oblige(oid + ".arg1", rz.arg(1) == y / S, "ensures")
            self.lemmas += 1
            self.ctx.assume(rz == P.FMOD(x / S, y / S))      # congruence from .arg0/.arg1
            self.ctx.assume(z3.Implies(S > 0, P.FMOD(x, y) == S * P.FMOD(x / S, y / S)))
        self.ctx.oblige(oid, rz * S == P.FMOD(x, y), "ensures")

    def instantiate(self, k):
        """instantiate, at index k, the universal facts produced by search loops
        ('no (earlier) iteration returns')"""
        kz = zint(k)
        for f in getattr(self.ctx, "foralls", []):
            self.ctx.assume(z3.Implies(z3.And(kz >= f["lo"], kz < f["hi"]),
                                       z3.substitute(f["body"], (f["var"], kz))))

    def sorted_facts(self, arr, extra=()):
        """ground instances of sortedness (i <= j -> a[i] <= a[j]) at every index term at which the
        input array is read in the path condition, plus `extra`"""
        base = arr.arr
        idx = {}
        stack = list(self.ctx.pc)
        seen = set()
        while stack:
            t = stack.pop()
            if t.get_id() in seen:
                continue
            seen.add(t.get_id())
            if z3.is_quantifier(t):
                continue
            if z3.is_select(t) and z3.eq(t.arg(0), base):
                idx[t.arg(1).get_id()] = t.arg(1)
            if z3.is_app(t):
                stack.extend(t.children())
        for e in extra:
            ez = zint(e)
            idx[ez.get_id()] = ez
        terms = list(idx.values())
        n = 0
        for a in terms:
            for b in terms:
                if a.get_id() == b.get_id():
                    continue
                self.ctx.assume(z3.Implies(z3.And(a >= 0, b < arr.n, a <= b),
                                           z3.Select(base, a) <= z3.Select(base, b)))
                n += 1
        return n

    def use_lemma(self, name, *args):
        from . import lemmas
        self.ctx.assume(lemmas.instance(name, *[zint(a) if not z3.is_expr(a) else a for a in args]))

    def check_sum(self, oid, value, lo, hi, termfn):
        """value must be  SUM_{lo <= i < hi} termfn(i).  Sum congruence: the fold ghost of the code's
        loop has bounds (lo,hi) and its term equals termfn at a Skolem index."""
        vz = z3.simplify(zreal(value)) if not isinstance(value, SInt) else z3.simplify(value.z)
        folds = {f["fn"].name(): f for f in getattr(self.ctx, "folds", [])}
        app = None
        stack = [vz]
        while stack:
            t = stack.pop()
            if z3.is_app(t) and t.decl().name() in folds and t.num_args() >= 2:
                app = t
                break
            if z3.is_app(t):
                stack.extend(t.children())
        if app is None:
            self.ctx.oblige(oid + ".is_a_fold", z3.BoolVal(False), "ensures", "result is not a loop fold")
            return
        f = folds[app.decl().name()]
        j = z3.Int(self.ctx.fresh("sk"))
        rest = z3.simplify(vz - app)
        self.ctx.oblige(oid + ".bounds", z3.And(app.arg(0) == zint(lo), app.arg(1) == zint(hi), rest == 0), "ensures")
        code_t = z3.substitute(f["term"], [(f["var"], j)] +
                               [(p, app.arg(2 + n)) for n, p in enumerate(f.get("params", []))])
        spec_t = termfn(SInt(j))
        spec_z = zreal(spec_t) if not z3.is_int(code_t) else zint(spec_t)
        self.ctx.oblige(oid + ".term", z3.Implies(z3.And(j >= zint(lo), j < zint(hi)), code_t == spec_z), "ensures")

    def feasible(self):
        return self.ctx.feasible(z3.BoolVal(True))

    def unreachable(self, oid, note=""):
        """the current path must be infeasible: obligation pc |= False, then the path ends"""
        from .ctx import PathAbort
        self.ctx.oblige(oid, z3.BoolVal(False), "ensures", note)
        raise PathAbort("path proved/claimed unreachable")

    def lemma(self, name, fact):
        """instance of a named lemma of the lemma library (assumed here, proved in lemmas/)"""
        self.lemmas += 1
        self.ctx.assume(self._z(fact))

    def ite(self, c, a, b):
        cz = self._z(c)
        if isinstance(a, (SInt, int)) and isinstance(b, (SInt, int)) and not isinstance(a, bool):
            return SInt(z3.If(cz, zint(a), zint(b)))
        return SReal(z3.If(cz, zreal(a), zreal(b)))

    def _z(self, c):
        if isinstance(c, SBool):
            return c.z
        if isinstance(c, bool):
            return z3.BoolVal(c)
        if z3.is_expr(c):
            return c
        return z3.BoolVal(bool(c))

    def truth(self, c):
        """decide a condition now (forks)"""
        if isinstance(c, SBool):
            return bool(c)
        return bool(c)

    def eq(self, x, y):
        from . import tokparse, tokstr
        if isinstance(x, tokstr.TokStr) and tokparse.single_enum(x) is not None:
            x = tokparse.single_enum(x)
        if isinstance(y, tokstr.TokStr) and tokparse.single_enum(y) is not None:
            y = tokparse.single_enum(y)
        if isinstance(x, (str, SEnum, tokstr.TokStr)) or isinstance(y, (str, SEnum, tokstr.TokStr)):
            r = (x == y)
            return r
        if isinstance(x, (SBool, bool)) and isinstance(y, (SBool, bool)):
            return SBool(self._z(x) == self._z(y))
        if isinstance(x, (SInt, int)) and isinstance(y, (SInt, int)):
            return SBool(zint(x) == zint(y))
        return SBool(zreal(x) == zreal(y))

    def lt(self, x, y): return SBool(zreal(x) < zreal(y))
    def le(self, x, y): return SBool(zreal(x) <= zreal(y))
    def and_(self, *a): return SBool(z3.And(*[self._z(x) for x in a])) if a else True
    def or_(self, *a): return SBool(z3.Or(*[self._z(x) for x in a])) if a else False
    def not_(self, a): return SBool(z3.Not(self._z(a)))
    def implies(self, a, b): return SBool(z3.Implies(self._z(a), self._z(b)))
    def iff(self, a, b): return SBool(self._z(a) == self._z(b))

    def check(self, oid, cond, note=""):
        self.ctx.oblige(oid, self._z(cond), "ensures", note)

    def cover(self, oid, cond=True):
        self.ctx.cover(oid, self._z(cond))

    def arr_len(self, a):
        from ..pysym.shadow import vlen
        return vlen(a)

    def arr_get(self, a, k):
        return a[k]

    def sel(self, a, k):
        """raw array element (total; no python index semantics) for spec-side facts"""
        from ..pysym.arrays import SymArr
        if isinstance(a, SymArr):
            return a.wrap(z3.Select(a.arr, zint(k)))
        return a[k]
