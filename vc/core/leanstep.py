"""EXTRA step: re-check a Lean lemma file of /verif/lemmas on every run.

A Lean *error* (or a `sorry` / `axiom` in the file) makes the run undecided: the lemma is a link of the claimed argument.
If Lean cannot be run at all or does not finish within the time limit (missing binary, cold Mathlib cache on a loaded
machine), the step does not change the verdict: the evidence then records the lemma as ASSUMED in this run."""
import os
import re
import subprocess

HERE = os.path.dirname(os.path.dirname(os.path.dirname(os.path.abspath(__file__))))


def lean_step(filename, prop, lemmas, timeout_s=900):
    def step(tier, seed):
        f = os.path.join(HERE, "lemmas", filename)
        out = {"name": "lean: %s (%s)" % (filename, ", ".join(lemmas)), "violations": [], "undecided": [], "runs": 1}
        try:
            src = open(f, encoding="utf-8").read()
        except OSError as e:
            out["undecided"].append({"obligation": "%s/lemma/%s" % (prop, filename), "detail": repr(e)})
            return out
        code = re.sub(r"/-.*?-/", "", src, flags=re.S)
        code = re.sub(r"--.*", "", code)
        if re.search(r"\bsorry\b|\baxiom\b", code):
            out["undecided"].append({"obligation": "%s/lemma/%s" % (prop, filename), "detail": "sorry / axiom in the lemma file"})
            return out
        try:
            p = subprocess.run(["lean", f], capture_output=True, text=True, timeout=timeout_s)
        except (OSError, subprocess.TimeoutExpired) as e:
            out["bounded"] = "Lean could not be run to completion in this run (%s): lemmas %s are ASSUMED here" % (type(e).__name__, ", ".join(lemmas))
            out["assumed"] = list(lemmas)
            return out
        if p.returncode != 0 or "error" in (p.stdout + p.stderr):
            out["undecided"].append({"obligation": "%s/lemma/%s" % (prop, filename), "detail": (p.stdout + p.stderr)[-600:]})
        else:
            out["checked"] = list(lemmas)
        return out
    step.__name__ = "lean_" + filename.replace(".", "_")
    return step
