"""Runs the cases of one property: explore, discharge, replay, evidence, exit code."""
import fnmatch
import json
import multiprocessing as mp
import os
import subprocess
import sys
import time
import traceback

VERIF = os.path.dirname(os.path.dirname(os.path.dirname(os.path.abspath(__file__))))
REPO = os.environ.get("VERIF_REPO", "/repo")
VENV_PY = os.environ.get("VERIF_VENV_PY", "/venv/bin/python")
EVID = os.environ.get("VERIF_EVIDENCE_DIR", os.path.join(VERIF, "evidence"))


class Case:
    def __init__(self, cid, fn, functions=(), bounded=None, max_paths=4000, conc=True, note="",
                 sym=True, thorough_only=False, random_runs=0):
        self.cid = cid
        self.fn = fn
        self.functions = list(functions)
        self.bounded = bounded          # None (unbounded) or a text stating the bound
        self.max_paths = max_paths
        self.conc = conc                # usable in concrete mode (replay / conformance)
        self.sym = sym
        self.note = note
        self.thorough_only = thorough_only
        self.random_runs = random_runs      # concrete-only case run on this many random inputs


def _load_prop(pid):
    """imports props.<pid>; cases shared from property modules that (transitively) import this one are listed by an optional
    LATE_CASES() of the module, called once here, after every module is fully initialised"""
    import importlib
    mod = importlib.import_module("props." + pid)
    late = getattr(mod, "LATE_CASES", None)
    if late is not None and not getattr(mod, "_late_done", False):
        mod._late_done = True
        have = {c.cid for c in mod.CASES}
        for c in late():
            if c.cid not in have:
                have.add(c.cid)
                mod.CASES.append(c)
    return mod


# ---------------------------------------------------------------------------
def _run_case_sym(args):
    pid, cid = args
    t0 = time.time()
    out = {"case": cid, "obligations": [], "paths": 0, "aborted": 0, "unsupported": [],
           "budget_hit": False, "crash": None, "covers": [], "wall_s": 0, "solver_calls": 0,
           "rewrites": {}, "lemmas": 0}
    try:
        import z3
        from .ctx import explore
        from .symapi import SymApi
        from . import solve
        from ..pysym.loader import instrumented
        mod = _load_prop(pid)
        case = {c.cid: c for c in mod.CASES}[cid]
        inst = instrumented()
        ctxs = []
        lem = [0]

        def body(ctx):
            api = SymApi(ctx, inst)
            ctxs.append(ctx)
            try:
                r = case.fn(api)
            finally:
                lem[0] += api.lemmas
            ctx.cover("%s/%s/path-reachable" % (pid, cid))
            return r

        # keep ctx with each obligation for fold facts
        res = explore(body, max_paths=case.max_paths)
        out["paths"] = res.paths
        out["aborted"] = res.aborted
        out["unsupported"] = res.unsupported
        vac, okl = [], []
        for c_ in ctxs:
            vac += getattr(c_, "vacuous", [])
            okl += getattr(c_, "loop_ok", [])
        out["vacuous"] = sorted(set(vac) - set(okl))
        out["late_infeasible_paths"] = len(vac)
        out["budget_hit"] = res.budget_hit
        out["solver_calls"] = res.solver_calls
        out["lemmas"] = lem[0]
        out["rewrites"] = dict(inst.rewrites)
        ctx_by_path = {c.path_no: c for c in ctxs}
        notproved = {}
        for ob in res.obligations:
            c = ctx_by_path.get(ob.path)
            if ob.kind == "cover":
                if ob.status == "sat":
                    st, secs = "sat", 0.0
                else:
                    st, secs = solve.check_sat(ob.pc, ob.goal, c)
                out["covers"].append({"id": ob.oid, "path": ob.path, "status": st, "time_s": secs})
                continue
            if ob.status == "proved":
                st, be, secs, model = "proved", ob.backend, ob.time_s, None
            elif notproved.get(ob.oid, 0) >= 3:
                # this clause already failed on three paths of the case: do not spend solver time again
                st, be, secs, model = "unknown", "skipped-after-3-failures", 0.0, None
            else:
                st, be, secs, model = solve.check_valid(ob.pc, ob.goal, c)
                if st != "proved":
                    notproved[ob.oid] = notproved.get(ob.oid, 0) + 1
            rec = {"id": ob.oid, "path": ob.path, "status": st, "backend": be, "time_s": round(secs, 4),
                   "note": ob.note, "npc": len(ob.pc)}
            if st != "proved":
                rec["inputs"] = solve.model_to_inputs(model, res.inputs)
                rec["goal"] = str(z3.simplify(ob.goal))[:2000]
            out["obligations"].append(rec)
    except BaseException as e:   # noqa
        out["crash"] = "%s: %s\n%s" % (type(e).__name__, e, traceback.format_exc()[-3000:])
    out["wall_s"] = round(time.time() - t0, 3)
    return out


# ---------------------------------------------------------------------------
def run_conc(pid, jobs, timeout=600):
    """jobs: list of {"case": cid, "inputs": {...}|None, "seed": int}; executed by the
    interpreter of the test suite against the untouched repository code"""
    if not jobs:
        return []
    env = dict(os.environ)
    env["PYTHONPATH"] = VERIF + os.pathsep + os.path.join(REPO, "src")
    env["VERIF_REPO"] = REPO
    p = subprocess.run([VENV_PY, "-W", "ignore", "-m", "vc.core.concrun", pid],
                       input=json.dumps(jobs), capture_output=True, text=True, env=env,
                       cwd=VERIF, timeout=timeout)
    if p.returncode != 0:
        raise RuntimeError("concrete runner failed: %s\n%s" % (p.returncode, p.stderr[-3000:]))
    return json.loads(p.stdout.strip().split("\n")[-1])


# ---------------------------------------------------------------------------
def load_findings():
    path = os.path.join(VERIF, "known_findings.txt")
    out = []
    if not os.path.exists(path):
        return out
    for line in open(path, encoding="utf-8"):
        line = line.strip()
        if not line or line.startswith("#"):
            continue
        kind, _, rest = line.partition(":")
        kind = kind.strip()
        if kind not in ("finding", "fixed"):
            continue
        toks = rest.strip().split()
        d = {"kind": kind, "text": [], "raw": line}
        for t in toks:
            if "=" in t and t.split("=")[0] in ("property", "obligation", "witness") and not d["text"]:
                k, _, v = t.partition("=")
                d[k] = v
            else:
                d["text"].append(t)
        d["text"] = " ".join(d["text"])
        out.append(d)
    return out


def match_finding(findings, pid, oid, inputs):
    for f in findings:
        if f["kind"] != "finding" or f.get("property") != pid:
            continue
        if not fnmatch.fnmatch(oid, f.get("obligation", "*")):
            continue
        w = f.get("witness")
        if w:
            try:
                if not eval(w, {"__builtins__": {}}, dict(inputs or {})):
                    continue
            except Exception:
                continue
        return f
    return None


# ---------------------------------------------------------------------------
def run_property(pid, tier="quick", seed=0, only=None, workers=None):
    t0 = time.time()
    mod = _load_prop(pid)
    cases = [c for c in mod.CASES if (tier == "thorough" or not c.thorough_only)]
    if only:
        cases = [c for c in cases if fnmatch.fnmatch(c.cid, only)]
    workers = workers or min(14, max(1, len(cases)))
    sym_cases = [c for c in cases if c.sym]
    results = []
    if sym_cases:
        ctxm = mp.get_context("fork")
        with ctxm.Pool(workers) as pool:
            results = pool.map(_run_case_sym, [(pid, c.cid) for c in sym_cases], chunksize=1)
    report = Report(pid, tier, seed, mod, cases, results, t0)
    report.partial = bool(only)
    # extra (non-symbolic) steps of the property: finite table checks, bounded stand-ins
    extra = getattr(mod, "EXTRA", None)
    if extra:
        for step in extra:
            try:
                report.extra.append(step(tier, seed))
            except Exception as e:
                report.extra.append({"name": getattr(step, "__name__", "extra"), "crash":
                                     "%s: %s\n%s" % (type(e).__name__, e, traceback.format_exc()[-2000:])})
    report.link = getattr(mod, "link_replay", None)
    report.replay_failures()
    report.conformance()
    return report.finish()


class Report:
    def __init__(self, pid, tier, seed, mod, cases, results, t0):
        self.pid, self.tier, self.seed, self.mod = pid, tier, seed, mod
        self.cases = {c.cid: c for c in cases}
        self.results = results
        self.t0 = t0
        self.extra = []
        self.violations = []
        self.known = []
        self.undecided = []
        self.crashes = []
        self.conf = {"runs": 0, "skipped": 0, "failures": []}
        self.finite = {}
        self.findings = load_findings()
        self.nreplay = 0

    # -- replay refuted obligations on the real code --------------------------
    def replay_failures(self):
        jobs = []
        idx = []
        for r in self.results:
            if r["crash"]:
                self.crashes.append("%s: %s" % (r["case"], r["crash"]))
                continue
            if r["unsupported"]:
                self.undecided.append("%s: unsupported: %s" % (r["case"], "; ".join(r["unsupported"][:3])))
            if r["budget_hit"]:
                self.undecided.append("%s: path budget hit" % r["case"])
            for v in r.get("vacuous", []):
                # a loop body whose path condition became inconsistent: the invariant was not checked on that path
                self.undecided.append("%s: vacuity guard: no path reaches the end of the body of %s with a consistent path "
                                      "condition (a contract fact contradicts the code?)" % (r["case"], v))
            if r["paths"] - r["aborted"] <= 0 and not r["unsupported"]:
                self.crashes.append("%s: vacuous (no completed path)" % r["case"])
            if not r["obligations"] and not r["unsupported"] and not r["crash"]:
                self.crashes.append("%s: vacuous (zero obligations)" % r["case"])
            for cv in r["covers"]:
                if cv["status"] == "unsat":
                    self.crashes.append("%s: cover %s unreachable (contradictory assumptions)"
                                        % (r["case"], cv["id"]))
            for ob in r["obligations"]:
                if ob["status"] == "unknown":
                    if match_finding(self.findings, self.pid, ob["id"], None) is not None and \
                            ob["backend"] == "skipped-after-3-failures":
                        ob["known"] = True      # further paths of a clause that is a listed finding
                        continue
                    self.undecided.append("%s: %s undecided (%s)" % (r["case"], ob["id"], ob["backend"]))
                elif ob["status"] == "refuted":
                    case = self.cases[r["case"]]
                    if case.conc:
                        # the counter-model, then variations that keep its discrete choices
                        jobs.append({"case": r["case"], "inputs": ob.get("inputs") or {}, "seed": self.seed})
                        idx.append((r, ob, "model"))
                        for k in range(6):
                            disc = {n: v for n, v in (ob.get("inputs") or {}).items()
                                    if isinstance(v, (int, bool))}
                            jobs.append({"case": r["case"], "inputs": disc, "seed": self.seed * 1000 + k + 1})
                            idx.append((r, ob, "variation"))
                    else:
                        idx.append((r, ob, None))
                        jobs.append(None)
        real_jobs = [j for j in jobs if j is not None]
        conc_out = []
        if real_jobs:
            try:
                conc_out = run_conc(self.pid, real_jobs)
            except Exception as e:
                self.crashes.append("replay runner: %s" % e)
                conc_out = [{"error": "runner"}] * len(real_jobs)
        it = iter(conc_out)
        per_ob = {}
        for (r, ob, how), j in zip(idx, jobs):
            key = (r["case"], ob["id"], ob["path"])
            rec = per_ob.setdefault(key, {"r": r, "ob": ob, "repro": None, "tried": 0})
            if j is None:
                continue
            o = next(it)
            rec["tried"] += 1
            if rec["repro"] is None and o.get("failures"):
                fail_ids = [f["obligation"] for f in o["failures"]]
                rec["repro"] = {"inputs": o.get("used", j["inputs"]), "failed": fail_ids,
                                "how": how, "detail": o.get("detail", "")}
        # one report per obligation id: prefer a path whose counter-example replays
        best = {}
        for key, rec in per_ob.items():
            oid = rec["ob"]["id"]
            if oid not in best or (best[oid]["repro"] is None and rec["repro"] is not None):
                rec["npaths"] = best.get(oid, {}).get("npaths", 0) + 1
                best[oid] = rec
            else:
                best[oid]["npaths"] = best[oid].get("npaths", 1) + 1
        for oid_, rec in best.items():
            ob, r = rec["ob"], rec["r"]
            inputs = (rec["repro"] or {}).get("inputs") or ob.get("inputs") or {}
            f = match_finding(self.findings, self.pid, ob["id"], inputs)
            if f is not None:
                self.known.append((f, ob["id"]))
                ob["known"] = True
                for key2, rec2 in per_ob.items():
                    if rec2["ob"]["id"] == ob["id"]:
                        rec2["ob"]["known"] = True
                continue
            self.nreplay += 1
            os.makedirs(os.path.join(EVID, "replay"), exist_ok=True)
            path = os.path.join(EVID, "replay", "%s-%d.json" % (self.pid, self.nreplay))
            if rec["repro"] is None and getattr(self, "link", None):
                try:
                    rec["repro"] = self.link(ob["id"], self.extra)
                except Exception:
                    rec["repro"] = None
            doc = {"property": self.pid, "case": r["case"], "obligation": ob["id"], "path": ob["path"],
                   "solver": {"status": ob["status"], "backend": ob["backend"], "goal": ob.get("goal"),
                              "model_inputs": ob.get("inputs")},
                   "failing_paths": rec.get("npaths", 1),
                   "replayed_on_real_code": rec["repro"] is not None,
                   "replay": rec["repro"], "repo": REPO}
            with open(path, "w", encoding="utf-8") as fh:
                json.dump(doc, fh, indent=1, ensure_ascii=False, default=str)
            self.violations.append((ob["id"], path, rec["repro"] is not None))

    # -- conformance: random concrete inputs, untouched code vs spec -----------
    def conformance(self):
        k = 20 if self.tier == "quick" else 200
        jobs = []
        for cid, c in self.cases.items():
            if not c.conc:
                continue
            if not c.sym and c.random_runs:
                for i in range(c.random_runs * (1 if self.tier == "quick" else 5)):
                    jobs.append({"case": cid, "inputs": {}, "seed": (self.seed + 1) * 100003 + i})
                continue
            if not c.sym:
                jobs.append({"case": cid, "inputs": {"__tier": self.tier}, "seed": self.seed, "finite": True,
                             "timeout": 1500})
                continue
            for i in range(k):
                jobs.append({"case": cid, "inputs": {}, "seed": (self.seed + 1) * 100003 + i})
        if not jobs:
            return
        try:
            outs = run_conc(self.pid, jobs, timeout=1800)
        except Exception as e:
            self.crashes.append("conformance runner: %s" % e)
            return
        for j, o in zip(jobs, outs):
            if o.get("skipped"):
                self.conf["skipped"] += 1
                continue
            if o.get("error"):
                self.crashes.append("conformance %s: %s" % (j["case"], o["error"][-800:]))
                continue
            if j.get("finite"):
                self.finite[j["case"]] = {"checks": o.get("checks", 0), "failures": len(o.get("failures") or [])}
                if not o.get("checks"):
                    self.crashes.append("finite case %s ran zero checks" % j["case"])
            else:
                self.conf["runs"] += 1
            if o.get("failures"):
                ids = [f["obligation"] for f in o["failures"]]
                f = None
                for oid in ids:
                    f = match_finding(self.findings, self.pid, oid, o.get("used", {}))
                    if f is None:
                        break
                if f is not None:
                    self.known.append((f, ids[0]))
                    continue
                self.conf["failures"].append({"case": j["case"], "failed": ids, "inputs": o.get("used")})
        # a concrete failure of the spec on the real code is a violation with a replayed input
        seen = set()
        for cf in self.conf["failures"]:
            key = (cf["case"], tuple(cf["failed"]))
            if key in seen:
                continue
            seen.add(key)
            self.nreplay += 1
            os.makedirs(os.path.join(EVID, "replay"), exist_ok=True)
            path = os.path.join(EVID, "replay", "%s-%d.json" % (self.pid, self.nreplay))
            with open(path, "w", encoding="utf-8") as fh:
                json.dump({"property": self.pid, "case": cf["case"], "obligation": cf["failed"][0],
                           "replayed_on_real_code": True, "source": "conformance run",
                           "replay": {"inputs": cf["inputs"], "failed": cf["failed"]}, "repo": REPO},
                          fh, indent=1, ensure_ascii=False, default=str)
            self.violations.append((cf["failed"][0], path, True))

    # -- evidence + exit code ------------------------------------------------
    def finish(self):
        pid = self.pid
        obs = [o for r in self.results for o in r["obligations"]]
        unb = [o for r in self.results for o in r["obligations"] if self.cases[r["case"]].bounded is None]
        bnd = [o for r in self.results for o in r["obligations"] if self.cases[r["case"]].bounded is not None]
        known_obs = [o for o in unb if o.get("known")]
        unb = [o for o in unb if not o.get("known")]
        proved = [o for o in unb if o["status"] == "proved"]
        functions = sorted({f for c in self.cases.values() for f in c.functions})
        by_backend = {}
        for o in obs:
            if o["status"] == "proved":
                by_backend[o["backend"]] = by_backend.get(o["backend"], 0) + 1
        samples = []
        for r in self.results[:6]:
            for o in r["obligations"][:2]:
                samples.append({"obligation": o["id"], "path": o["path"], "status": o["status"],
                                "backend": o["backend"], "time_s": o["time_s"]})
        extra_ok = True
        for e in self.extra:
            if e.get("crash"):
                self.crashes.append("extra %s: %s" % (e.get("name"), e["crash"]))
            for v in e.get("violations", []):
                f = match_finding(self.findings, pid, v["obligation"], v.get("inputs", {}))
                if f is not None:
                    self.known.append((f, v["obligation"]))
                    continue
                self.nreplay += 1
                os.makedirs(os.path.join(EVID, "replay"), exist_ok=True)
                path = os.path.join(EVID, "replay", "%s-%d.json" % (pid, self.nreplay))
                with open(path, "w", encoding="utf-8") as fh:
                    json.dump({"property": pid, "obligation": v["obligation"], "replayed_on_real_code": True,
                               "replay": v, "repo": REPO}, fh, indent=1, ensure_ascii=False, default=str)
                self.violations.append((v["obligation"], path, True))
            for u in e.get("undecided", []):
                self.undecided.append("extra %s: %s" % (e.get("name"), u))
        meta = getattr(self.mod, "META", {})
        level = meta.get("level", "proof")
        cov = {
            "obligations": len(unb),
            "discharged": len(proved),
            "checker_cmd": "./check %s --tier %s" % (pid, self.tier),
            "trusted_base": meta.get("trusted_base", []),
            "functions_under_contract": functions,
            "cases": len(self.cases),
            "paths_explored": sum(r["paths"] for r in self.results),
            "paths_aborted_infeasible": sum(r["aborted"] for r in self.results),
            "discharged_by_backend": by_backend,
            "solver_time_s": round(sum(o["time_s"] for o in obs), 3),
            "feasibility_solver_calls": sum(r["solver_calls"] for r in self.results),
            "lemma_instances_assumed": sum(r.get("lemmas", 0) for r in self.results),
            "bounded_standins": {
                "obligations": len(bnd),
                "held": len([o for o in bnd if o["status"] == "proved"]),
                "bounds": sorted({"%s: %s" % (c.cid, c.bounded) for c in self.cases.values() if c.bounded}),
                "note": "never added to obligations/discharged",
            },
            "vacuity_guards": {
                "covers": sum(len(r["covers"]) for r in self.results),
                "covers_sat": sum(1 for r in self.results for c in r["covers"] if c["status"] == "sat"),
            },
            "conformance": {"concrete_runs_on_untouched_code": self.conf["runs"],
                            "skipped_outside_precondition": self.conf["skipped"],
                            "failures": len(self.conf["failures"])},
            "finite_exhaustive_checks_on_untouched_code": self.finite,
            "case_wall_s": {r["case"]: r["wall_s"] for r in self.results},
            "rewrites": _merge_rewrites(self.results),
            "extra_steps": [{k: v for k, v in e.items() if k not in ("violations",)} for e in self.extra],
            "known_findings_printed": sorted({f["raw"] for f, _ in self.known}),
            "obligations_failing_as_listed_known_findings": len(known_obs),
            "undecided": self.undecided[:20],
            "samples": samples or [{"note": "no symbolic case"}],
            "evaluations": len(obs) + self.conf["runs"],
            "distinct_nontrivial": len({(o["id"], o["path"]) for o in obs}),
            "rule": "one obligation per (contract clause, path); distinct = distinct (clause, path) pairs",
            "explanation": meta.get("explanation", ""),
        }
        ev = {
            "property_id": pid, "tier": self.tier, "seed": int(self.seed), "level": level,
            "coverage": cov, "assumptions": meta.get("assumptions", []),
            "wall_s": round(time.time() - self.t0, 2), "violations": len(self.violations),
        }
        os.makedirs(EVID, exist_ok=True)
        # a run restricted with --only covers part of the property: its record does not replace the evidence of a full run
        evname = "%s.partial.json" % pid if getattr(self, "partial", False) else "%s.json" % pid
        with open(os.path.join(EVID, evname), "w", encoding="utf-8") as fh:
            json.dump(ev, fh, indent=1, ensure_ascii=False)
        # ---- verdict
        printed = set()
        for f, oid in self.known:
            line = "KNOWN-FINDING: property=%s %s" % (pid, f["text"])
            if line not in printed:
                print(line)
                printed.add(line)
        seen_v = {}
        for oid, path, repro in self.violations:
            if oid not in seen_v or (repro and not seen_v[oid][2]):
                seen_v[oid] = (oid, path, repro)
        for oid, path, repro in seen_v.values():
            print("VIOLATION property=%s replay=%s obligation=%s%s"
                  % (pid, path, oid, "" if repro else " no-failing-input-found"))
        for u in sorted(set(self.undecided)):
            print("UNDECIDED %s" % u)
        for c in self.crashes:
            print("CHECKER-ERROR %s" % c)
        print("%s %s: %d obligations, %d discharged (unbounded), %d bounded stand-ins, %d paths, "
              "%d conformance runs, %.1fs"
              % (pid, self.tier, len(unb), len(proved), len(bnd), cov["paths_explored"],
                 self.conf["runs"], time.time() - self.t0))
        if self.violations:
            return 1
        if self.crashes:
            return 3
        if self.undecided:
            return 2
        if level == "proof" and (len(unb) == 0 or len(proved) != len(unb)):
            return 3
        return 0


def _merge_rewrites(results):
    out = {}
    for r in results:
        for m, c in r.get("rewrites", {}).items():
            out[m] = c
    return out
