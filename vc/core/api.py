"""The two faces of a harness.

A harness `case(api)` is written once.  With SymApi (checker process, python3-vt)
its inputs are full-domain symbols, the repository code it calls is the
instrumented copy and api.check() emits proof obligations.  With ConcApi (replay /
conformance, /venv/bin/python, *untouched* repository code, no z3) the inputs are
concrete numbers - taken from a counter-model or drawn at random - and api.check()
evaluates the very same spec expression with a relative tolerance.
"""
import math
import random
from fractions import Fraction

SPACE = ["km", "m", "dm", "cm", "mm", "dmm", "cmm", "µm", "nm", "pm", "fm"]
TIME = ["h", "min", "s", "ds", "cs", "ms", "µs", "ns", "ps", "fs"]
QUANTITY = ["kmol", "mol", "dmol", "cmol", "mmol", "µmol", "nmol", "pmol", "fmol", "molecule"]
KIND_LABELS = {"space": SPACE, "time": TIME, "quantity": QUANTITY}
KINDS = ("space", "time", "quantity")

# independent SI table (spec side; transcribed from the SI definitions, not from units.py)
AVOGADRO = Fraction(602214076 * 10**15)
_P = {"k": Fraction(10**3), "": Fraction(1), "d": Fraction(1, 10), "c": Fraction(1, 100),
      "m": Fraction(1, 1000), "µ": Fraction(1, 10**6), "n": Fraction(1, 10**9),
      "p": Fraction(1, 10**12), "f": Fraction(1, 10**15)}
SI_TABLE = {
    "space": {"km": _P["k"], "m": _P[""], "dm": _P["d"], "cm": _P["c"], "mm": _P["m"],
              "dmm": Fraction(1, 10**4), "cmm": Fraction(1, 10**5), "µm": _P["µ"], "nm": _P["n"],
              "pm": _P["p"], "fm": _P["f"]},
    "time": {"h": Fraction(3600), "min": Fraction(60), "s": _P[""], "ds": _P["d"], "cs": _P["c"],
             "ms": _P["m"], "µs": _P["µ"], "ns": _P["n"], "ps": _P["p"], "fs": _P["f"]},
    "quantity": dict([(p + "mol", _P[p] * AVOGADRO) for p in ("k", "", "d", "c", "m", "µ", "n", "p", "f")]
                     + [("molecule", Fraction(1))]),
}


class CaseSkip(Exception):
    """inputs outside the precondition of the case (concrete mode only)"""


class Outcome:
    def __init__(self, kind, value=None, exc=None):
        self.kind = kind      # 'ok' | 'raise'
        self.value = value
        self.exc = exc

    @property
    def ok(self):
        return self.kind == "ok"

    def __repr__(self):
        return "Outcome(%s, %r)" % (self.kind, self.value if self.ok else self.exc)


class BaseApi:
    def call(self, thunk, catch=Exception):
        try:
            return Outcome("ok", thunk())
        except catch as e:
            return Outcome("raise", exc=e)

    def mod(self, name):
        raise NotImplementedError


# ---------------------------------------------------------------------------
class ConcApi(BaseApi):
    mode = "conc"

    def __init__(self, inputs=None, seed=0, rtol=1e-9, modules=None):
        self.inputs = dict(inputs or {})
        self.given = set(self.inputs)
        self.rng = random.Random(seed)
        self.rtol = rtol
        self.failures = []
        self.checks = 0
        self.used = {}
        self._modules = modules
        self.lemmas = 0

    # ---- repository access ---------------------------------------------
    def mod(self, name):
        import importlib
        return importlib.import_module("strengths." + name)

    # ---- inputs --------------------------------------------------------
    def _get(self, name, draw):
        if name in self.inputs:
            v = self.inputs[name]
        else:
            v = draw()
            self.inputs[name] = v
        self.used[name] = v
        return v

    def real(self, name, positive=False, nonzero=False, lo=None, hi=None):
        def draw():
            if lo is not None and hi is not None:
                if lo == 0 and hi >= 10**6:
                    return 0.0 if self.rng.random() < 0.15 else 10 ** self.rng.uniform(-3, 3)
                return self.rng.uniform(lo, hi)
            mag = 10 ** self.rng.uniform(-3, 3)
            if self.rng.random() < 0.15:
                mag = float(self.rng.randint(1, 9))
            if positive or self.rng.random() < 0.6:
                return mag
            return -mag
        v = float(self._get(name, draw))
        if positive and not v > 0:
            raise CaseSkip(name)
        if nonzero and v == 0:
            raise CaseSkip(name)
        if lo is not None and v < lo or hi is not None and v > hi:
            raise CaseSkip(name)
        return v

    def int(self, name, lo, hi, draw=None):
        dlo, dhi = draw if draw else (lo, hi)
        if draw and name in self.inputs and isinstance(self.inputs[name], int) and \
                not (dlo - 8 * (dhi - dlo + 1) <= self.inputs[name] <= dhi + 8 * (dhi - dlo + 1)):
            # a counter-model may pick an astronomically large size: replay a drawn one instead
            del self.inputs[name]
        v = int(self._get(name, lambda: self.rng.randint(max(lo, dlo), min(hi, dhi))))
        if v < lo or v > hi:
            raise CaseSkip(name)
        return v

    def bool(self, name):
        return bool(self._get(name, lambda: self.rng.random() < 0.5))

    def choice(self, name, n):
        """a concrete value 0 <= k < n in both modes (symbolic mode: one path per value)"""
        return self.int(name, 0, n - 1)

    def enum(self, name, kind, domain=None):
        dom = list(domain if domain is not None else KIND_LABELS[kind])
        v = self._get(name, lambda: self.rng.randrange(len(dom)))
        if isinstance(v, str):
            if v not in dom:
                raise CaseSkip(name)
            return v
        if not 0 <= int(v) < len(dom):
            raise CaseSkip(name)
        return dom[int(v)]

    def length(self, name, lo=0, hi=None):
        return self.int(name, lo, hi if hi is not None else 4)

    def array(self, name, n, positive=False, nonzero=False, sort="real"):
        """list of n numbers"""
        def draw():
            out = []
            for _ in range(n):
                if sort == "int":
                    out.append(self.rng.randint(-3, 5))
                    continue
                mag = 10 ** self.rng.uniform(-2, 2)
                out.append(mag if positive or self.rng.random() < 0.6 else -mag)
            return out
        v = self._get(name, draw)
        if isinstance(v, dict):
            # model of an array: {"default": x, "k": v}
            d = v.get("default", 1.0)
            v = [v.get(str(k), d) for k in range(n)]
            self.used[name] = v
        v = list(v)[:n] + [1.0] * max(0, n - len(v))
        if sort == "int":
            return [int(x) for x in v]
        v = [float(x) for x in v]
        if positive and any(not x > 0 for x in v):
            raise CaseSkip(name)
        if nonzero and any(x == 0 for x in v):
            raise CaseSkip(name)
        return v

    def constrain_array(self, a, lo, hi):
        if any(not (lo <= x < hi) for x in a):
            raise CaseSkip("array element out of range")

    def index(self, name, n):
        """an index 0 <= k < n (Skolem point in symbolic mode)"""
        if n <= 0:
            raise CaseSkip(name)
        return self.int(name, 0, n - 1)

    def assume(self, cond):
        if not self.truth(cond):
            raise CaseSkip("assume")

    # ---- spec vocabulary -------------------------------------------------
    def tbl(self, kind, sym):
        return SI_TABLE[kind][sym]

    def pw(self, base, n):
        return Fraction(base) ** int(n) if isinstance(base, Fraction) else base ** int(n)

    def root(self, q, x):
        return float(x) ** (1.0 / q)

    def fmod(self, a, b):
        a, b = self.num(a), self.num(b)
        if b == 0:
            raise CaseSkip("modulo by zero")
        return a - b * (a // b)          # python % on exact rationals (sign of b)

    def lemma_fmod(self, a, b, lam):
        self.lemmas += 1

    def check_fmod(self, oid, result, x, y, S):
        """result*S must equal fmod(x, y) where x, y are SI values and S the scale of the
        units the result is stored in"""
        x, y = self.num(x), self.num(y)
        if y == 0:
            raise CaseSkip("modulo by zero")
        q = x / y
        frac = q - (q.numerator // q.denominator)
        # float % is discontinuous: only well-conditioned instances can be compared to rounding
        if abs(q) > 10**6 or frac < Fraction(1, 10**6) or frac > 1 - Fraction(1, 10**6):
            raise CaseSkip("ill-conditioned modulo (A1: floats are treated as reals)")
        got = self.num(result) * S
        exp = self.fmod(x, y)
        self.check(oid, abs(got - exp) <= Fraction(self.rtol) * abs(y) * max(1, abs(q)))

    def instantiate(self, k):
        pass

    def feasible(self):
        return True

    def unreachable(self, oid, note=""):
        self.check(oid, False, note)

    def use_lemma(self, name, *args):
        pass

    def sorted_facts(self, arr, extra=()):
        return 0

    def check_sum(self, oid, value, lo, hi, termfn):
        s = 0
        for i in range(lo, hi):
            s = s + self.num(termfn(i))
        self.check(oid, self.close(value, s) if s != 0 else abs(float(value)) < 1e-300)

    def lemma(self, name, fact):
        self.lemmas += 1
        if not self.truth(fact):
            self.failures.append({"obligation": "lemma/" + name, "note": "lemma instance false on concrete inputs"})

    def ite(self, c, a, b):
        return a if self.truth(c) else b

    def truth(self, c):
        return bool(c)

    def num(self, x):
        """exact rational of a float (spec arithmetic is exact in concrete mode)"""
        if isinstance(x, Fraction):
            return x
        if isinstance(x, bool):
            return Fraction(int(x))
        if isinstance(x, int):
            return Fraction(x)
        x = float(x)
        if math.isnan(x) or math.isinf(x):
            raise CaseSkip("non-finite value")
        return Fraction(x)

    def close(self, x, y):
        try:
            x = self.num(x)
            y = self.num(y)
        except CaseSkip:
            return False
        if x == y:
            return True
        for v in (x, y):
            if v != 0 and not (Fraction(1, 10**200) < abs(v) < Fraction(10**200)):
                raise CaseSkip("magnitude outside the safe float range")
        return abs(x - y) <= Fraction(self.rtol) * max(abs(x), abs(y))

    def eq(self, x, y):
        if isinstance(x, (int, bool)) and isinstance(y, (int, bool)):
            return x == y
        if isinstance(x, str) or isinstance(y, str):
            return x == y
        return self.close(x, y)

    def lt(self, x, y): return self.num(x) < self.num(y)
    def le(self, x, y): return self.num(x) <= self.num(y)
    def and_(self, *a): return all(self.truth(x) for x in a)
    def or_(self, *a): return any(self.truth(x) for x in a)
    def not_(self, a): return not self.truth(a)
    def implies(self, a, b): return (not self.truth(a)) or self.truth(b)
    def iff(self, a, b): return self.truth(a) == self.truth(b)

    def check(self, oid, cond, note=""):
        self.checks += 1
        if not self.truth(cond):
            self.failures.append({"obligation": oid, "note": note})

    def cover(self, oid, cond=True):
        pass

    def arr_len(self, a):
        return len(a)

    def arr_get(self, a, k):
        return a[k]

    def sel(self, a, k):
        return a[k] if 0 <= k < len(a) else 0

    def sum_range(self, n, f):
        s = 0
        for k in range(n):
            s = s + f(k)
        return s
