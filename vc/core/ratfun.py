"""Decision of real-arithmetic identities by rational-function normalisation.

Many obligations are equalities  lhs == rhs  between expressions built from + - * / and
if-then-else over opaque atoms (symbolic numbers, table entries, power / root ghosts).  When
they hold, they hold as identities of rational functions (given non-zero denominators), which
nlsat-based solvers find slowly once a dozen atoms are multiplied.  This module proves such a
goal exactly:

  1. the if-conditions occurring in the goal are enumerated (only assignments consistent with
     the path condition, decided by z3);
  2. under each assignment both sides are normalised to  numerator / denominator  with sparse
     multivariate polynomials over the atoms (exact rationals);
  3. every syntactic divisor must be provably non-zero under the path condition (z3), and
     root atoms r = root_q(a) over an atomic a are eliminated by  a := r^q ;
  4. the goal holds iff  num_l * den_r - num_r * den_l  is the zero polynomial.

Only `proved` is ever concluded here; anything else falls through to the SMT back ends.
"""
from fractions import Fraction
import z3


class GiveUp(Exception):
    pass


# ---- sparse polynomials: {monomial: coeff}, monomial = tuple(sorted((atom_id, exp)))
def p_const(c):
    c = Fraction(c)
    return {(): c} if c != 0 else {}


def p_atom(i):
    return {((i, 1),): Fraction(1)}


def p_add(a, b):
    r = dict(a)
    for m, c in b.items():
        v = r.get(m, 0) + c
        if v == 0:
            r.pop(m, None)
        else:
            r[m] = v
    return r


def p_neg(a):
    return {m: -c for m, c in a.items()}


def _mmul(m1, m2):
    d = dict(m1)
    for i, e in m2:
        d[i] = d.get(i, 0) + e
    return tuple(sorted(d.items()))


def p_mul(a, b):
    if len(a) * len(b) > 400000:
        raise GiveUp("polynomial too large")
    r = {}
    for m1, c1 in a.items():
        for m2, c2 in b.items():
            m = _mmul(m1, m2)
            v = r.get(m, 0) + c1 * c2
            if v == 0:
                r.pop(m, None)
            else:
                r[m] = v
    return r


def p_subst_pow(p, atom, by_atom, q):
    """replace atom by by_atom^q"""
    r = {}
    for m, c in p.items():
        d = dict(m)
        if atom in d:
            e = d.pop(atom)
            d[by_atom] = d.get(by_atom, 0) + e * q
        mm = tuple(sorted(d.items()))
        v = r.get(mm, 0) + c
        if v == 0:
            r.pop(mm, None)
        else:
            r[mm] = v
    return r


class Normaliser:
    def __init__(self, assignment, prove_nonzero):
        self.assign = assignment          # {cond_id: bool}
        self.prove_nonzero = prove_nonzero
        self.atoms = {}                   # id -> z3 term
        self.cache = {}

    def atom(self, t):
        i = t.get_id()
        self.atoms[i] = t
        return (p_atom(i), p_const(1))

    def norm(self, t):
        i = t.get_id()
        if i in self.cache:
            return self.cache[i]
        r = self._norm(t)
        self.cache[i] = r
        return r

    def _norm(self, t):
        if z3.is_rational_value(t):
            return (p_const(t.as_fraction()), p_const(1))
        if z3.is_int_value(t):
            return (p_const(t.as_long()), p_const(1))
        if z3.is_algebraic_value(t):
            raise GiveUp("algebraic numeral")
        if not z3.is_app(t):
            raise GiveUp("non-application")
        k = t.decl().kind()
        ch = t.children()
        if k == z3.Z3_OP_ADD:
            n, d = self.norm(ch[0])
            for c in ch[1:]:
                n2, d2 = self.norm(c)
                if d == d2:
                    n = p_add(n, n2)
                else:
                    n, d = p_add(p_mul(n, d2), p_mul(n2, d)), p_mul(d, d2)
            return (n, d)
        if k == z3.Z3_OP_SUB:
            n, d = self.norm(ch[0])
            for c in ch[1:]:
                n2, d2 = self.norm(c)
                if d == d2:
                    n = p_add(n, p_neg(n2))
                else:
                    n, d = p_add(p_mul(n, d2), p_neg(p_mul(n2, d))), p_mul(d, d2)
            return (n, d)
        if k == z3.Z3_OP_UMINUS:
            n, d = self.norm(ch[0])
            return (p_neg(n), d)
        if k == z3.Z3_OP_MUL:
            n, d = self.norm(ch[0])
            for c in ch[1:]:
                n2, d2 = self.norm(c)
                n, d = p_mul(n, n2), p_mul(d, d2)
            return (n, d)
        if k == z3.Z3_OP_DIV:
            n, d = self.norm(ch[0])
            n2, d2 = self.norm(ch[1])
            if not self.prove_nonzero(ch[1]):
                raise GiveUp("divisor not provably non-zero: %s" % ch[1])
            return (p_mul(n, d2), p_mul(d, n2))
        if k == z3.Z3_OP_TO_REAL:
            return self.norm(ch[0])
        if k == z3.Z3_OP_ITE:
            c = ch[0]
            ci = c.get_id()
            if ci not in self.assign:
                raise GiveUp("unassigned condition")
            return self.norm(ch[1] if self.assign[ci] else ch[2])
        if k == z3.Z3_OP_POWER:
            raise GiveUp("power operator")
        # opaque atom (uninterpreted constant / application, select, ...)
        return self.atom(t)


def _conditions(terms):
    out = {}
    seen = set()
    stack = list(terms)
    while stack:
        t = stack.pop()
        if t.get_id() in seen:
            continue
        seen.add(t.get_id())
        if z3.is_quantifier(t):
            raise GiveUp("quantifier")
        if z3.is_app(t):
            if t.decl().kind() == z3.Z3_OP_ITE and not z3.is_bool(t):
                out[t.arg(0).get_id()] = t.arg(0)
            stack.extend(t.children())
    return list(out.values())


def _equalities(goal):
    """goal as list of (extra premises, lhs, rhs); raises GiveUp for other shapes"""
    if z3.is_eq(goal) and (z3.is_real(goal.arg(0)) or z3.is_int(goal.arg(0))):
        return [([], goal.arg(0), goal.arg(1))]
    if z3.is_and(goal):
        out = []
        for c in goal.children():
            out += _equalities(c)
        return out
    if z3.is_implies(goal):
        sub = _equalities(goal.arg(1))
        return [([goal.arg(0)] + p, l, r) for p, l, r in sub]
    if z3.is_or(goal) and goal.num_args() == 2:
        # Or(Not(p), eq)
        a, b = goal.arg(0), goal.arg(1)
        for x, y in ((a, b), (b, a)):
            if z3.is_not(x):
                try:
                    return [([x.arg(0)] + p, l, r) for p, l, r in _equalities(y)]
                except GiveUp:
                    pass
    raise GiveUp("goal is not an equality")


def prove(solver, goal, timeout_ms=2000):
    """solver: z3.Solver holding the path condition.  True iff the goal is proved."""
    try:
        eqs = _equalities(z3.simplify(goal) if False else goal)
    except GiveUp:
        return False
    try:
        for prem, lhs, rhs in eqs:
            lhs, rhs = z3.simplify(lhs), z3.simplify(rhs)      # beta-reduces selects on lambda arrays
            if not _prove_eq(solver, prem, lhs, rhs, timeout_ms):
                return False
        return True
    except GiveUp:
        return False
    except z3.Z3Exception:
        return False


def _prove_eq(solver, prem, lhs, rhs, timeout_ms):
    depth0 = solver.num_scopes()
    solver.push()
    try:
        solver.set("timeout", timeout_ms)
        solver.set("rlimit", 3000000)       # deterministic resource bound (timeouts are not always honoured)
        for p in prem:
            solver.add(p)
        conds = _conditions([lhs, rhs])
        if len(conds) > 10:
            raise GiveUp("too many conditions")
        nz_cache = {}

        def prove_nonzero(t):
            i = t.get_id()
            if i not in nz_cache:
                solver.push()
                solver.add(t == 0)
                nz_cache[i] = (solver.check() == z3.unsat)
                solver.pop()
            return nz_cache[i]

        def prove_nonneg(t):
            solver.push()
            solver.add(t < 0)
            r = (solver.check() == z3.unsat)
            solver.pop()
            return r

        eq_cache = {}

        def prove_equal(a, b):
            key = (a.get_id(), b.get_id())
            if key not in eq_cache:
                solver.push()
                solver.add(a != b)
                eq_cache[key] = (solver.check() == z3.unsat)
                solver.pop()
            return eq_cache[key]

        def value_of(t):
            """the constant value of t if the path condition (with the current case) fixes it"""
            if solver.check() != z3.sat:
                return None
            v = solver.model().eval(t, model_completion=True)
            if not (z3.is_int_value(v) or z3.is_rational_value(v)):
                return None
            solver.push()
            solver.add(t != v)
            fixed = (solver.check() == z3.unsat)
            solver.pop()
            if not fixed:
                return None
            return Fraction(v.as_long()) if z3.is_int_value(v) else v.as_fraction()

        def rec(k, assign):
            if k == len(conds):
                return _identity(assign, lhs, rhs, prove_nonzero, prove_nonneg, prove_equal, value_of)
            c = conds[k]
            ok = True
            for val in (True, False):
                solver.push()
                solver.add(c if val else z3.Not(c))
                r = solver.check()
                if r == z3.unsat:
                    solver.pop()
                    continue
                assign[c.get_id()] = val
                ok = rec(k + 1, assign)
                del assign[c.get_id()]
                solver.pop()
                if not ok:
                    return False
            return ok

        return rec(0, {})
    finally:
        # leave the solver exactly as it was found: an exception raised inside a nested case (GiveUp, solver error)
        # must not leave a premise or a case condition behind as a hypothesis of later queries
        while solver.num_scopes() > depth0:
            solver.pop()
        solver.set("rlimit", 0)


def p_rename(p, ren):
    r = {}
    for m, c in p.items():
        d = {}
        for i, e in m:
            j = ren.get(i, i)
            d[j] = d.get(j, 0) + e
        mm = tuple(sorted(d.items()))
        v = r.get(mm, 0) + c
        if v == 0:
            r.pop(mm, None)
        else:
            r[mm] = v
    return r


def _head(t):
    if z3.is_app(t) and t.num_args() > 0:
        return (t.decl().name(), t.num_args())
    return None


def p_subst_const(p, atom, val):
    r = {}
    for m, c in p.items():
        d = dict(m)
        if atom in d:
            e = d.pop(atom)
            c = c * (val ** e)
        if c == 0:
            continue
        mm = tuple(sorted(d.items()))
        v = r.get(mm, 0) + c
        if v == 0:
            r.pop(mm, None)
        else:
            r[mm] = v
    return r


def _identity(assign, lhs, rhs, prove_nonzero, prove_nonneg, prove_equal=None, value_of=None):
    nm = Normaliser(dict(assign), prove_nonzero)
    n1, d1 = nm.norm(lhs)
    n2, d2 = nm.norm(rhs)
    diff = p_add(p_mul(n1, d2), p_neg(p_mul(n2, d1)))
    if not diff:
        return True
    # eliminate atomic bases of root atoms: a := root_q(a)^q
    for i, t in list(nm.atoms.items()):
        if z3.is_app(t) and t.decl().kind() == z3.Z3_OP_UNINTERPRETED and t.decl().name().startswith("root") \
                and t.num_args() == 1:
            try:
                q = int(t.decl().name()[4:])
            except ValueError:
                continue
            base = t.arg(0)
            bi = base.get_id()
            if bi in nm.atoms and prove_nonneg(base):
                diff = p_subst_pow(diff, bi, i, q)
    if not diff:
        return True
    if value_of is not None:
        # integer-valued atoms (flags, indices) whose value is fixed on this case
        used = set()
        for m in diff:
            for i, _ in m:
                used.add(i)
        for i in used:
            t = nm.atoms.get(i)
            if t is not None and z3.is_int(t):
                v = value_of(t)
                if v is not None:
                    diff = p_subst_const(diff, i, v)
        if not diff:
            return True
    if prove_equal is None:
        return False
    # atoms that the path condition makes equal (same function applied to provably equal arguments,
    # e.g. table entries of unit symbols known to coincide on this path) are identified
    used = set()
    for m in diff:
        for i, _ in m:
            used.add(i)
    groups = {}
    for i in used:
        t = nm.atoms.get(i)
        if t is None:
            continue
        h = _head(t)
        if h is not None:
            groups.setdefault((h, t.sort().name()), []).append(i)
    ren = {}
    for ids in groups.values():
        reps = []
        for i in sorted(ids):
            for r in reps:
                if prove_equal(nm.atoms[i], nm.atoms[r]):
                    ren[i] = r
                    break
            else:
                reps.append(i)
    if not ren:
        return False
    diff = p_rename(diff, ren)
    return not diff
