"""Lemma schemas: universally valid facts about integers that the solver does not find inside
a large query but proves at once in isolation.  Each schema is PROVED by z3 with fresh
variables the first time it is used in a process (a failed proof makes the run undecided);
harnesses then add ground instances to the path condition.  Nothing here is assumed.
"""
import z3
from .proxies import PYDIV, PYMOD, TRUNC, divmod_fact, trunc_fact
from .ctx import Unsupported

_proved = {}
PROOF_LOG = []


def _I(n):
    return z3.Int("lem!" + n)


def schema_U(b, r, q, r2, q2):
    """uniqueness of quotient and remainder"""
    return z3.Implies(z3.And(b > 0, 0 <= r, r < b, 0 <= r2, r2 < b, r + b * q == r2 + b * q2),
                      z3.And(r == r2, q == q2))


def schema_T(a, b):
    """python int(a/b) on a >= 0, b > 0 is the integer quotient (reals: A1)"""
    q = z3.ToReal(a) / z3.ToReal(b)
    return z3.Implies(z3.And(a >= 0, b > 0, divmod_fact(a, b), trunc_fact(q)), TRUNC(q) == PYDIV(a, b))


def schema_B(x, y, z, w, h, d):
    """L9: 3-D index bound"""
    i = x + y * w + z * w * h
    return z3.Implies(z3.And(0 <= x, x < w, 0 <= y, y < h, 0 <= z, z < d), z3.And(i >= 0, i < w * h * d))


def schema_R(i, w, h, d):
    """ranges of the decomposition of a linear index"""
    wh = w * h
    r2 = PYMOD(i, wh)
    return z3.Implies(z3.And(w >= 1, h >= 1, d >= 1, 0 <= i, i < w * h * d, divmod_fact(i, wh),
                             divmod_fact(r2, w), divmod_fact(i, w)),
                      z3.And(PYDIV(i, wh) >= 0, PYDIV(i, wh) < d, PYDIV(r2, w) >= 0, PYDIV(r2, w) < h,
                             PYMOD(i, w) >= 0, PYMOD(i, w) < w))


def schema_P(a, b):
    """product of positives is positive; of non-negatives non-negative"""
    return z3.And(z3.Implies(z3.And(a > 0, b > 0), a * b > 0), z3.Implies(z3.And(a >= 0, b >= 0), a * b >= 0))


def schema_S(a, b, c):
    """strict monotonicity of multiplication: a > 0, b < c  ->  a*b < a*c ; b <= c -> a*b <= a*c"""
    return z3.Implies(a > 0, z3.And(z3.Implies(b < c, a * b < a * c), z3.Implies(b <= c, a * b <= a * c),
                                    z3.Implies(a * b < a * c, b < c)))


SCHEMAS = {"U": (schema_U, 5), "T": (schema_T, 2), "B": (schema_B, 6), "R": (schema_R, 4),
           "P": (schema_P, 2), "S": (schema_S, 3)}


def prove_schema(name):
    if name in _proved:
        return _proved[name]
    f, n = SCHEMAS[name]
    vs = [_I("%s%d" % (name, k)) for k in range(n)]
    s = z3.Solver()
    s.set("timeout", 60000)
    s.add(z3.Not(f(*vs)))
    r = s.check()
    ok = (r == z3.unsat)
    _proved[name] = ok
    PROOF_LOG.append((name, str(r)))
    return ok


def instance(name, *args):
    if not prove_schema(name):
        raise Unsupported("lemma schema %s could not be proved in isolation" % name)
    return SCHEMAS[name][0](*args)
