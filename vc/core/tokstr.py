"""Token-level symbolic strings.

A TokStr is a concatenation of atoms:
  Lit(s)        concrete text
  IntLit(SInt)  decimal rendering of a symbolic integer (str(int))
  FloatLit(SReal) repr of a symbolic float
  Enum(SEnum)   one of finitely many concrete strings
  Label(id)     opaque identifier: >= 1 characters, none of them in the stated
                excluded class (blank, '+', '-', '>', and for unit parsing also
                digits, '.', '/')
  WS(min)       run of blanks, at least `min` characters
The language quantified over by a proof on TokStr values is exactly the set of
strings these atoms generate.
"""
import z3
from .ctx import Ctx, Unsupported
from .proxies import SInt, SReal, SEnum, SBool, ctx


class Atom:
    pass


class Lit(Atom):
    def __init__(self, s):
        self.s = s

    def __repr__(self):
        return "Lit(%r)" % self.s


class IntLit(Atom):
    def __init__(self, v):
        self.v = v

    def __repr__(self):
        return "IntLit(%r)" % (self.v,)


class FloatLit(Atom):
    def __init__(self, v):
        self.v = v

    def __repr__(self):
        return "FloatLit(%r)" % (self.v,)


class Enum(Atom):
    def __init__(self, e):
        self.e = e

    def __repr__(self):
        return "Enum(%r)" % (self.e,)


class Label(Atom):
    def __init__(self, ident, excluded=None, not_in=()):
        self.ident = ident      # z3 Int identifying the label (equal ids <=> equal text)
        self.excluded = excluded   # set of characters that never occur in it (None: default class)
        self.not_in = frozenset(not_in)   # concrete strings the label is known to differ from

    def __repr__(self):
        return "Label(%s)" % self.ident


class WS(Atom):
    def __init__(self, minlen):
        self.minlen = minlen

    def __repr__(self):
        return "WS(%d)" % self.minlen


def _atoms_of(x):
    if isinstance(x, TokStr):
        return list(x.atoms)
    if isinstance(x, str):
        return [Lit(x)] if x else []
    if isinstance(x, SEnum):
        return [Enum(x)]
    raise TypeError("can only concatenate str (not %r) to str" % type(x).__name__)


def concat(a, b):
    return TokStr(_atoms_of(a) + _atoms_of(b))


class TokStr:
    def __init__(self, atoms):
        out = []
        for a in atoms:
            if isinstance(a, Lit) and out and isinstance(out[-1], Lit):
                out[-1] = Lit(out[-1].s + a.s)
            elif isinstance(a, Lit) and a.s == "":
                continue
            else:
                out.append(a)
        self.atoms = out

    def __deepcopy__(self, memo):
        return self

    def __add__(self, o):
        if not isinstance(o, (str, TokStr, SEnum)):
            return NotImplemented
        return concat(self, o)

    def __radd__(self, o):
        if not isinstance(o, (str, TokStr, SEnum)):
            return NotImplemented
        return concat(o, self)

    def __repr__(self):
        return "TokStr(%r)" % (self.atoms,)

    def __str__(self):
        raise Unsupported("str() of a token string at the C level")

    def is_concrete(self):
        return all(isinstance(a, Lit) for a in self.atoms)

    def concrete(self):
        return "".join(a.s for a in self.atoms)

    def __hash__(self):
        return id(self)

    def to_int(self):
        if len(self.atoms) == 1 and isinstance(self.atoms[0], IntLit):
            return self.atoms[0].v
        if self.is_concrete():
            return int(self.concrete())
        from . import tokparse
        return tokparse.to_int(self)

    def to_float(self):
        if len(self.atoms) == 1 and isinstance(self.atoms[0], FloatLit):
            return self.atoms[0].v
        if len(self.atoms) == 1 and isinstance(self.atoms[0], IntLit):
            return SReal(z3.ToReal(self.atoms[0].v.z))
        if self.is_concrete():
            return float(self.concrete())
        from . import tokparse
        return tokparse.to_float(self)

    def __eq__(self, o):
        from . import tokparse
        return tokparse.equals(self, o)

    def __ne__(self, o):
        r = self.__eq__(o)
        if isinstance(r, SBool):
            return SBool(z3.Not(r.z))
        return not r

    def __getattr__(self, name):
        # str methods are provided by tokparse (split, strip, replace, count, ...)
        if name.startswith("__") or name in ("atoms", "z", "np"):
            raise AttributeError(name)
        from . import tokparse
        f = getattr(tokparse, "m_" + name, None)
        if f is None:
            raise Unsupported("str.%s on a token string" % name)
        return lambda *a, **k: f(self, *a, **k)

    def __iter__(self):
        from . import tokparse
        return tokparse.iter_chars(self)

    def __len__(self):
        raise Unsupported("len() of a token string at the C level")

    def __contains__(self, o):
        from . import tokparse
        return tokparse.contains(self, o)
