import argparse
import json
import os
import sys


def main():
    ap = argparse.ArgumentParser()
    ap.add_argument("property")
    ap.add_argument("--tier", default=os.environ.get("VERIF_TIER", "quick"))
    ap.add_argument("--only", default=None)
    ap.add_argument("--replay", default=None)
    ap.add_argument("--workers", type=int, default=None)
    a = ap.parse_args()
    tier = os.environ.get("VERIF_TIER") or a.tier
    if tier not in ("quick", "thorough"):
        tier = "quick"
    seed = int(os.environ.get("VERIF_SEED", "0") or 0)
    from . import runner
    if a.replay:
        doc = json.load(open(a.replay, encoding="utf-8"))
        rep = doc.get("replay") or {}
        if "case" not in doc:
            print(json.dumps(doc, indent=1))
            return 0
        outs = runner.run_conc(doc["property"], [{"case": doc["case"], "inputs": rep.get("inputs") or
                                                  doc.get("solver", {}).get("model_inputs") or {}, "seed": seed}])
        print(json.dumps(outs, indent=1))
        return 1 if outs and outs[0].get("failures") else 0
    try:
        return runner.run_property(a.property, tier, seed, a.only, a.workers)
    except SystemExit:
        raise
    except BaseException as e:   # noqa
        import traceback
        traceback.print_exc()
        print("CHECKER-ERROR %s: %s" % (type(e).__name__, e))
        return 3


if __name__ == "__main__":
    sys.exit(main())
