"""Concrete runner: executes harness cases with ConcApi against the untouched
repository code.  Run by the interpreter of the test suite:
    /venv/bin/python -m vc.core.concrun <property>   (jobs as JSON on stdin)
"""
import importlib
import json
import signal
import sys
import traceback
import warnings

from .api import ConcApi, CaseSkip


class _Timeout(Exception):
    pass


def _on_alarm(signum, frame):
    raise _Timeout("concrete run exceeded its time limit")


signal.signal(signal.SIGALRM, _on_alarm)


def run_job(mod, job):
    case = {c.cid: c for c in mod.CASES}[job["case"]]
    api = ConcApi(inputs=job.get("inputs") or {}, seed=job.get("seed", 0),
                  rtol=getattr(mod, "RTOL", 1e-9))
    out = {"case": job["case"]}
    try:
        signal.alarm(int(job.get("timeout", 30)))
        with warnings.catch_warnings():
            warnings.simplefilter("ignore")
            case.fn(api)
        signal.alarm(0)
        out["failures"] = api.failures
        out["checks"] = api.checks
        out["used"] = api.used
    except (CaseSkip, _Timeout) as e:
        out["skipped"] = str(e) or type(e).__name__
    except BaseException as e:    # noqa
        signal.alarm(0)
        out["error"] = "%s: %s\n%s" % (type(e).__name__, e, traceback.format_exc()[-1500:])
    return out


def main():
    pid = sys.argv[1]
    from .runner import _load_prop
    mod = _load_prop(pid)
    jobs = json.loads(sys.stdin.read())
    outs = [run_job(mod, j) for j in jobs]
    sys.stdout.write("\n" + json.dumps(outs, default=str) + "\n")


if __name__ == "__main__":
    main()
