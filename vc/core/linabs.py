import z3
_MI = z3.Function("nlmul_i", z3.IntSort(), z3.IntSort(), z3.IntSort())
_MR = z3.Function("nlmul_r", z3.RealSort(), z3.RealSort(), z3.RealSort())

def linabs(e, cache=None):
    """replace products of two non-numeral factors by an uninterpreted function (weakens hypotheses and goal alike:
    used only on the negated query, so `unsat` of the abstraction implies `unsat` of the original)"""
    if cache is None:
        cache = {}
    def go(t):
        i = t.get_id()
        if i in cache:
            return cache[i]
        if z3.is_quantifier(t):
            r = t
        elif z3.is_app(t) and t.num_args() > 0:
            ch = [go(c) for c in t.children()]
            if t.decl().kind() == z3.Z3_OP_MUL:
                nums = [c for c in ch if z3.is_int_value(c) or z3.is_rational_value(c)]
                oth = [c for c in ch if not (z3.is_int_value(c) or z3.is_rational_value(c))]
                if len(oth) >= 2:
                    oth.sort(key=lambda c: c.get_id())
                    acc = oth[0]
                    for c in oth[1:]:
                        if z3.is_int(acc) and z3.is_int(c):
                            acc = _MI(acc, c)
                        else:
                            a2 = z3.ToReal(acc) if z3.is_int(acc) else acc
                            c2 = z3.ToReal(c) if z3.is_int(c) else c
                            acc = _MR(a2, c2)
                    r = acc
                    for nmb in nums:
                        r = nmb * r
                else:
                    r = t.decl()(*ch)
            else:
                r = t.decl()(*ch)
        else:
            r = t
        cache[i] = r
        return r
    return go(e)
