"""Discharge of obligations: z3 first, cvc5 (CLI, via SMT-LIB text) on unknown."""
import os
import subprocess
import tempfile
import time
import z3

from . import proxies as P

Z3_TIMEOUT_MS = int(os.environ.get("VERIF_Z3_TIMEOUT_MS", "12000"))
CVC5_TIMEOUT_S = int(os.environ.get("VERIF_CVC5_TIMEOUT_S", "20"))


def _facts_for(ctx, exprs):
    from ..pysym import loops
    exprs = [z3.simplify(e) for e in exprs]
    facts = P.hint_facts(exprs)
    if ctx is not None:
        ff = loops.fold_facts(ctx, exprs + facts)
        facts += ff
        if ff:
            facts += P.hint_facts(ff)
    return exprs, facts


def check_valid(pc, goal, ctx=None, timeout_ms=None, use_cvc5=True, want_model=True):
    """is pc ⊨ goal ?  returns (status, backend, seconds, model|None)
    status: proved | refuted | unknown"""
    t0 = time.time()
    exprs, facts = _facts_for(ctx, list(pc) + [z3.Not(goal)])
    s = z3.Solver()
    s.set("timeout", timeout_ms or Z3_TIMEOUT_MS)
    for e in exprs:
        s.add(e)
    for f in facts:
        s.add(f)
    r = s.check()
    if r == z3.unsat:
        return "proved", "z3", time.time() - t0, None
    if r == z3.sat:
        return "refuted", "z3", time.time() - t0, (s.model() if want_model else None)
    # unknown: second opinion
    model = None
    try:
        model = s.model()
    except z3.Z3Exception:
        model = None
    if use_cvc5:
        st = cvc5_check(s)
        if st == "unsat":
            return "proved", "cvc5", time.time() - t0, None
        if st == "sat":
            return "refuted", "cvc5", time.time() - t0, model
    return "unknown", "z3+cvc5" if use_cvc5 else "z3", time.time() - t0, model


def check_sat(pc, cond, ctx=None, timeout_ms=10000):
    """cover check: pc ∧ cond satisfiable?  returns (status, seconds) status sat|unsat|unknown"""
    t0 = time.time()
    exprs, facts = _facts_for(ctx, list(pc) + [cond])
    s = z3.Solver()
    s.set("timeout", timeout_ms)
    for e in exprs:
        s.add(e)
    for f in facts:
        s.add(f)
    r = s.check()
    return ("sat" if r == z3.sat else "unsat" if r == z3.unsat else "unknown"), time.time() - t0


def cvc5_check(solver):
    try:
        txt = solver.to_smt2()
    except Exception:
        return "unknown"
    if "lambda" in txt or "(_ as-array" in txt:
        return "unknown"
    txt = "(set-logic ALL)\n" + txt
    with tempfile.NamedTemporaryFile("w", suffix=".smt2", delete=False) as f:
        f.write(txt)
        path = f.name
    try:
        out = subprocess.run(["/usr/bin/cvc5", "--tlimit=%d" % (CVC5_TIMEOUT_S * 1000), "--nl-ext-tplanes", path],
                             capture_output=True, text=True, timeout=CVC5_TIMEOUT_S + 5)
        first = out.stdout.strip().split("\n")[0] if out.stdout.strip() else ""
        return first if first in ("sat", "unsat") else "unknown"
    except Exception:
        return "unknown"
    finally:
        os.unlink(path)


def model_to_inputs(model, inputs):
    """concrete values of the declared inputs (name -> python value)"""
    out = {}
    if model is None:
        return out
    for name, const in inputs.items():
        try:
            if z3.is_array(const):
                v = model.eval(const, model_completion=True)
                out[name] = _array_value(model, v)
                continue
            v = model.eval(const, model_completion=True)
            if z3.is_int_value(v):
                out[name] = v.as_long()
            elif z3.is_rational_value(v):
                fr = v.as_fraction()
                out[name] = float(fr)
            elif z3.is_algebraic_value(v):
                out[name] = float(v.approx(20).as_fraction())
            elif z3.is_true(v) or z3.is_false(v):
                out[name] = z3.is_true(v)
        except Exception:
            pass
    return out


def _array_value(model, v):
    d = {}
    depth = 0
    while depth < 64:
        depth += 1
        if z3.is_store(v):
            k, x = v.arg(1), v.arg(2)
            if z3.is_int_value(k):
                d.setdefault(str(k.as_long()), _num(x))
            v = v.arg(0)
        elif z3.is_const_array(v):
            d["default"] = _num(v.arg(0))
            break
        else:
            break
    if "default" not in d:
        d["default"] = 1.0
    return d


def _num(x):
    if z3.is_int_value(x):
        return x.as_long()
    if z3.is_rational_value(x):
        return float(x.as_fraction())
    if z3.is_algebraic_value(x):
        return float(x.approx(20).as_fraction())
    return 1.0
