"""Path engine: symbolic execution by re-execution with a decision prefix.

A *case* is a Python callable `body(ctx)` that builds symbolic inputs, runs real
code of /repo on them and emits obligations.  `explore(body)` runs it once per
feasible path of the decision tree (depth first, re-executing from the start with
the recorded decision prefix) until the tree is exhausted.

Control-flow exceptions derive from BaseException so that `except Exception` in
the code under verification cannot swallow them.
"""
import time
import z3

FEAS_TIMEOUT_MS = 4000


class PathAbort(BaseException):
    """current path ends here (infeasible assumption / killed after a cut)"""


class Unsupported(BaseException):
    """construct outside the supported subset -> the run is undecided (exit 2)"""


class BudgetExceeded(BaseException):
    pass


class Obligation:
    __slots__ = ("oid", "pc", "goal", "kind", "note", "path", "status", "backend",
                 "time_s", "model", "expect_sat")

    def __init__(self, oid, pc, goal, kind="ensures", note="", path=0, expect_sat=False):
        self.oid = oid
        self.pc = list(pc)
        self.goal = goal
        self.kind = kind          # ensures | requires | rte | cover | canary
        self.note = note
        self.path = path
        self.status = None        # proved | refuted | unknown
        self.backend = None
        self.time_s = 0.0
        self.model = None
        self.expect_sat = expect_sat


class Ctx:
    """state of one path"""
    current = None

    def __init__(self, prefix, path_no, opts=None):
        self.prefix = list(prefix)
        self.pos = 0
        self.nforks = 0
        self.pc = []               # list of z3 Bool
        self.pending = []          # alternative prefixes discovered on this path
        self.obligations = []
        self.path_no = path_no
        self.fresh_counter = {}
        self.solver = z3.Solver()
        self.solver.set("timeout", FEAS_TIMEOUT_MS)
        self.inputs = {}           # name -> z3 const (declared inputs, for models)
        self.positive = set()      # ids (z3 ast hash/str) of terms known > 0
        self.notes = []
        self.opts = opts or {}
        self.nsolver_calls = 0
        self.scopes = []
        self.outcome = None

    # ---- fresh names (deterministic across re-executions) -----------------
    def fresh(self, base):
        n = self.fresh_counter.get(base, 0)
        self.fresh_counter[base] = n + 1
        return "%s!%d" % (base, n)

    # ---- path condition ---------------------------------------------------
    def assume(self, cond, check=False, defer=False):
        """defer=True: the fact is part of the path condition of every obligation but is kept out of
        the incremental solver that decides path feasibility (heavy nonlinear definitional facts)"""
        cond = _b(cond)
        if z3.is_true(cond):
            return
        self.pc.append(cond)
        if defer:
            return
        self.solver.add(cond)
        if z3.is_false(cond):
            raise PathAbort("assume false")
        if check:
            self.nsolver_calls += 1
            if self.solver.check() == z3.unsat:
                raise PathAbort("infeasible assumption")

    def feasible(self, cond):
        """is pc ∧ cond satisfiable?  unknown counts as feasible."""
        self.nsolver_calls += 1
        self.solver.push()
        self.solver.add(cond)
        r = self.solver.check()
        self.solver.pop()
        return r != z3.unsat

    def branch(self, cond):
        """decide a symbolic condition; returns a Python bool"""
        cond = z3.simplify(_b(cond))
        if z3.is_true(cond):
            return True
        if z3.is_false(cond):
            return False
        if self.scopes and _mentions(cond, self.scopes):
            return self._scoped_branch(cond)
        if self.pos < len(self.prefix):
            # replay: every non-trivial branch (forced or forked) is in the prefix, so
            # the replay never depends on a second verdict of the solver
            d = self.prefix[self.pos]
            if not isinstance(d, bool):
                raise RuntimeError("replay misaligned: expected a branch")
            self.pos += 1
            c = cond if d else z3.Not(cond)
            self.pc.append(c)
            self.solver.add(c)
            return d
        ft = self.feasible(cond)
        ff = self.feasible(z3.Not(cond))
        if not ft and not ff:
            raise PathAbort("path condition became infeasible")
        d = bool(ft)
        if ft and ff:
            self.pending.append(self.prefix + [False])
            self.nforks += 1
        self.prefix.append(d)
        self.pos += 1
        c = cond if d else z3.Not(cond)
        self.pc.append(c)
        self.solver.add(c)
        return d

    def _merger(self):
        ls = getattr(self, "loop_stack", None)
        if not ls:
            raise Unsupported("decision on a generic element outside a mergeable generic iteration")
        return ls[-1]

    def _scoped_branch(self, cond):
        """decision that depends on the generic element of an enclosing generic iteration: never
        recorded in the path prefix; the enclosing loop explores both sides and merges"""
        ft = self.feasible(cond)
        ff = self.feasible(z3.Not(cond))
        if not ft and not ff:
            raise PathAbort("path condition became infeasible")
        if ft and ff:
            d = self._merger().sub_branch()
        else:
            d = bool(ft)
        c = cond if d else z3.Not(cond)
        self.pc.append(c)
        self.solver.add(c)
        if ft and ff:
            self._merger().sub_pc.append(c)
        return d

    def _enumerate(self, z, lo=None, hi=None, limit=64):
        vals = []
        self.solver.push()
        if lo is not None:
            self.solver.add(z >= lo)
        if hi is not None:
            self.solver.add(z < hi)
        while True:
            self.nsolver_calls += 1
            r = self.solver.check()
            if r != z3.sat:
                if r == z3.unknown:
                    self.solver.pop()
                    raise Unsupported("solver gave up while enumerating a finite choice")
                break
            v = self.solver.model().eval(z, model_completion=True)
            if not z3.is_int_value(v):
                self.solver.pop()
                raise Unsupported("non-numeral model value in a finite choice")
            vals.append(v.as_long())
            if len(vals) > limit:
                self.solver.pop()
                raise Unsupported("more than %d feasible values for a symbolic index" % limit)
            self.solver.add(z != v.as_long())
        self.solver.pop()
        vals.sort()
        return vals

    def choose(self, z, n=None):
        """n-ary decision: a concrete value 0 <= k < n of the Int term z.  Feasible values are
        enumerated from models (one solver call per feasible value)."""
        zs = z3.simplify(z)
        if z3.is_int_value(zs):
            return zs.as_long()
        if self.scopes and _mentions(z, self.scopes):
            vals = self._enumerate(z, 0 if n is not None else None, n)
            if not vals:
                raise PathAbort("no feasible value for a finite choice")
            k = self._merger().sub_choose(vals) if len(vals) > 1 else vals[0]
            self.pc.append(z == k)
            self.solver.add(z == k)
            if len(vals) > 1:
                self._merger().sub_pc.append(z == k)
            return k
        if self.pos < len(self.prefix):
            k = self.prefix[self.pos]
            if isinstance(k, bool) or not isinstance(k, tuple):
                raise RuntimeError("replay misaligned: expected a choice")
            k = k[1]
            self.pos += 1
            self.pc.append(z == k)
            self.solver.add(z == k)
            return k
        vals = self._enumerate(z, 0 if n is not None else None, n)
        if not vals:
            raise PathAbort("no feasible value for a finite choice")
        vals.sort()
        for k in vals[1:]:
            self.pending.append(self.prefix + [("c", k)])
        if len(vals) > 1:
            self.nforks += 1
        k = vals[0]
        self.prefix.append(("c", k))
        self.pos += 1
        self.pc.append(z == k)
        self.solver.add(z == k)
        return k

    # ---- generic scopes -----------------------------------------------------
    def generic_scope(self, var, assumption):
        return _Scope(self, var, assumption)

    # ---- obligations ------------------------------------------------------
    def oblige(self, oid, goal, kind="ensures", note=""):
        goal = _b(goal)
        ob = Obligation(oid, self.pc, goal, kind, note, self.path_no)
        self.obligations.append(ob)
        if z3.is_true(z3.simplify(goal)):
            ob.status, ob.backend, ob.time_s = "proved", "simplify", 0.0
            return
        # fast path: the path's incremental solver already holds pc.  Only `unsat` is
        # accepted here (fewer facts than the full query -> still valid); anything else
        # goes to the full discharge with all hint instances.
        t0 = time.time()
        depth0 = self.solver.num_scopes()
        proved_rf = False
        try:
            from . import ratfun
            proved_rf = ratfun.prove(self.solver, goal)
        except Exception:
            proved_rf = False
        if self.solver.num_scopes() != depth0:
            while self.solver.num_scopes() > depth0:
                self.solver.pop()
            self.scope_leaks = getattr(self, "scope_leaks", 0) + 1
            proved_rf = False          # a verdict reached with a leaked scope is not trusted
        self.solver.set("timeout", FEAS_TIMEOUT_MS)
        if proved_rf:
            ob.status = "proved"
            ob.backend = "ratfun"
            ob.time_s = time.time() - t0
            return
        t0 = time.time()
        try:
            from .proxies import hint_facts
            g = z3.simplify(goal)
            self.solver.push()
            self.solver.set("timeout", 3000)
            self.solver.add(z3.Not(g))
            for f in hint_facts([g]):
                self.solver.add(f)
            r = self.solver.check()
            self.solver.pop()
            self.solver.set("timeout", FEAS_TIMEOUT_MS)
            if r == z3.unsat:
                ob.status = "proved"
                ob.backend = "z3-incremental"
                ob.time_s = time.time() - t0
                return
        except z3.Z3Exception:
            pass
        finally:
            if self.solver.num_scopes() != depth0:
                # a scope left open would turn a goal's hypothesis into a hypothesis of every later query
                while self.solver.num_scopes() > depth0:
                    self.solver.pop()
                self.scope_leaks = getattr(self, "scope_leaks", 0) + 1
        import os as _os
        if _os.environ.get("VERIF_DUMP") and _os.environ["VERIF_DUMP"] in oid:
            sd = z3.Solver()
            for f in self.pc:
                sd.add(f)
            sd.add(z3.Not(goal))
            open("/tmp/w/dump_%s_%d.smt2" % (oid.replace("/", "_")[-60:], len(self.obligations)), "w").write(sd.to_smt2())
        # cone of influence: only the quantifier-free facts that share symbols with the goal (2 rounds).
        # Fewer hypotheses -> `unsat` is still a proof of the full obligation.
        try:
            t0 = time.time()
            g = z3.simplify(goal)
            syms = _consts(g)
            facts = [f for f in self.pc if not _has_quantifier(f)]
            fsyms = [_consts(f) for f in facts]
            chosen = set()
            for _ in range(2):
                for k, fs in enumerate(fsyms):
                    if k not in chosen and fs & syms and len(fs) <= 12:
                        chosen.add(k)
                grown = set(syms)
                for k in chosen:
                    grown |= fsyms[k]
                syms = grown
            s2 = z3.Solver()
            s2.set("timeout", 2000)
            for k in chosen:
                s2.add(facts[k])
            s2.add(z3.Not(g))
            if s2.check() == z3.unsat:
                ob.status = "proved"
                ob.backend = "z3-cone"
                ob.time_s = time.time() - t0
                return
            # same cone with every product of two non-constant factors replaced by an uninterpreted function:
            # a weaker set of hypotheses in linear arithmetic, where the solver is complete (`unsat` is still a proof)
            from .linabs import linabs
            cache = {}
            s3 = z3.Solver()
            s3.set("timeout", 2000)
            for k in chosen:
                s3.add(linabs(facts[k], cache))
            s3.add(linabs(z3.Not(g), cache))
            if s3.check() == z3.unsat:
                ob.status = "proved"
                ob.backend = "z3-cone-linear-abstraction"
                ob.time_s = time.time() - t0
        except z3.Z3Exception:
            pass

    def cover(self, oid, cond=True, note=""):
        """reachability guard: pc ∧ cond must be satisfiable"""
        cond = _b(cond)
        ob = Obligation(oid, self.pc, cond, "cover", note, self.path_no, expect_sat=True)
        self.obligations.append(ob)
        try:
            self.solver.push()
            self.solver.add(cond)
            r = self.solver.check()
            self.solver.pop()
            if r == z3.sat:
                ob.status = "sat"
        except z3.Z3Exception:
            pass

    def mark_positive(self, expr):
        self.positive.add(expr.get_id())

    def is_positive(self, expr):
        return _known_positive(self, expr)


def _consts(e):
    out, seen, stack = set(), set(), [e]
    while stack:
        t = stack.pop()
        i = t.get_id()
        if i in seen:
            continue
        seen.add(i)
        if z3.is_quantifier(t):
            stack.append(t.body())
            continue
        if z3.is_app(t):
            if t.num_args() == 0 and t.decl().kind() == z3.Z3_OP_UNINTERPRETED:
                out.add(t.decl().name())
            stack.extend(t.children())
    return out


def _has_quantifier(e):
    seen, stack = set(), [e]
    while stack:
        t = stack.pop()
        i = t.get_id()
        if i in seen:
            continue
        seen.add(i)
        if z3.is_quantifier(t):
            return True
        stack.extend(t.children())
    return False


def _mentions(e, vars_):
    ids = set(v.get_id() for v in vars_)
    seen = set()
    stack = [e]
    while stack:
        t = stack.pop()
        i = t.get_id()
        if i in seen:
            continue
        seen.add(i)
        if i in ids:
            return True
        if z3.is_quantifier(t):
            stack.append(t.body())
        else:
            stack.extend(t.children())
    return False


class _Scope:
    """`with ctx.generic_scope(j, 0 <= j < n)`: run code for a generic element.
    Facts that mention j are dropped on exit; the others are kept."""

    def __init__(self, c, var, assumption):
        self.c, self.var, self.assumption = c, var, assumption

    def __enter__(self):
        c = self.c
        self.mark = len(c.pc)
        c.solver.push()
        c.scopes.append(self.var)
        c.pc.append(self.assumption)
        c.solver.add(self.assumption)
        return self

    def __exit__(self, et, ev, tb):
        c = self.c
        c.scopes.pop()
        c.solver.pop()
        tail = c.pc[self.mark:]
        del c.pc[self.mark:]
        for f in tail:
            if not _mentions(f, [self.var]):
                c.pc.append(f)
                c.solver.add(f)
        return False


def _known_positive(ctx, e):
    if e.get_id() in ctx.positive:
        return True
    if z3.is_rational_value(e) or z3.is_int_value(e):
        try:
            return e.as_fraction() > 0
        except Exception:
            return e.as_long() > 0
    if z3.is_mul(e) or z3.is_div(e):
        return all(_known_positive(ctx, c) for c in e.children())
    if z3.is_app(e) and e.decl().kind() == z3.Z3_OP_TO_REAL:
        return _known_positive(ctx, e.arg(0))
    if z3.is_add(e):
        return all(_known_positive(ctx, c) for c in e.children())
    return False


def _b(c):
    if isinstance(c, bool):
        return z3.BoolVal(c)
    if hasattr(c, "z"):
        return c.z
    return c


class ExploreResult:
    def __init__(self):
        self.paths = 0
        self.aborted = 0
        self.obligations = []
        self.outcomes = []
        self.unsupported = []
        self.budget_hit = False
        self.wall_s = 0.0
        self.solver_calls = 0
        self.inputs = {}


def explore(body, max_paths=4000, opts=None):
    """run `body(ctx)` over the whole decision tree"""
    res = ExploreResult()
    t0 = time.time()
    work = [[]]
    while work:
        if res.paths >= max_paths:
            res.budget_hit = True
            break
        prefix = work.pop()
        ctx = Ctx(prefix, res.paths, opts)
        Ctx.current = ctx
        res.paths += 1
        try:
            out = body(ctx)
            ctx.outcome = out
            res.outcomes.append(out)
            res.obligations.extend(ctx.obligations)
        except PathAbort:
            res.aborted += 1
            # obligations emitted before an abort caused by an *assumption* still stand
            res.obligations.extend(ctx.obligations)
        except Unsupported as e:
            res.unsupported.append("%s (path %d)" % (e, ctx.path_no))
        finally:
            Ctx.current = None
        res.solver_calls += ctx.nsolver_calls
        res.inputs.update(ctx.inputs)
        work.extend(ctx.pending)
    res.wall_s = time.time() - t0
    return res
