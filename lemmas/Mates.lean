import Mathlib

/-- L-mates: if the slot tables are built by steps that each append two fresh slots pointing at each other and leave the
    older slots alone (the SetNeighbors iteration contract), then `mate` is a fixed-point-free involution on the slots. -/
inductive Built {Slot : Type} [DecidableEq Slot] : Finset Slot → (Slot → Slot) → Prop
  | empty (m : Slot → Slot) : Built ∅ m
  | step (S : Finset Slot) (m : Slot → Slot) (p q : Slot) :
      Built S m → p ∉ S → q ∉ S → p ≠ q →
      Built (insert p (insert q S)) (Function.update (Function.update m p q) q p)

theorem L_mates {Slot : Type} [DecidableEq Slot] (S : Finset Slot) (m : Slot → Slot) (h : Built S m) :
    ∀ e ∈ S, m e ∈ S ∧ m (m e) = e ∧ m e ≠ e := by
  induction h with
  | empty m => intro e he; simp at he
  | step S m p q hb hp hq hpq ih =>
    intro e he
    simp only [Finset.mem_insert] at he
    rcases he with rfl | rfl | heS
    · -- e = p : mate is q
      have hqp : q ≠ e := fun h => hpq h.symm
      have hqp' : ¬ q = e := hqp
      simp [Function.update_of_ne hpq, hpq, hqp']
    · -- e = q : mate is p
      simp [hpq, Ne.symm hpq]
    · -- an older slot
      have hep : e ≠ p := fun h => hp (h ▸ heS)
      have heq : e ≠ q := fun h => hq (h ▸ heS)
      obtain ⟨h1, h2, h3⟩ := ih e heS
      have hmp : m e ≠ p := fun h => hp (h ▸ h1)
      have hmq : m e ≠ q := fun h => hq (h ▸ h1)
      simp [Function.update_of_ne hep, Function.update_of_ne heq, Function.update_of_ne hmp, Function.update_of_ne hmq, h1, h2, h3]
