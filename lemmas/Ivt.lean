import Mathlib

/-- L-IVT (discrete intermediate value): if t a ≤ q < t b with a < b, some window [k, k+1) inside [a, b] contains q.
    (Monotonicity of t is not needed for existence.) -/
theorem L_IVT (t : ℕ → ℝ) (q : ℝ) (a b : ℕ) (hab : a < b) (ha : t a ≤ q) (hb : q < t b) :
    ∃ k, a ≤ k ∧ k < b ∧ t k ≤ q ∧ q < t (k + 1) := by
  obtain ⟨n, rfl⟩ := Nat.exists_eq_add_of_lt hab
  induction n with
  | zero => exact ⟨a, le_refl a, by omega, ha, by simpa using hb⟩
  | succ m ih =>
    by_cases h : q < t (a + m + 1)
    · obtain ⟨k, hk1, hk2, hk3, hk4⟩ := ih (by omega) h
      exact ⟨k, hk1, by omega, hk3, hk4⟩
    · have h' : t (a + m + 1) ≤ q := not_lt.mp h
      refine ⟨a + m + 1, by omega, by omega, h', ?_⟩
      have e : a + (m + 1) + 1 = a + m + 1 + 1 := by omega
      rw [e] at hb
      exact hb

/-- the mirrored form used by the `supeq` lookup: t a < q ≤ t b -/
theorem L_IVT' (t : ℕ → ℝ) (q : ℝ) (a b : ℕ) (hab : a < b) (ha : t a < q) (hb : q ≤ t b) :
    ∃ k, a ≤ k ∧ k < b ∧ t k < q ∧ q ≤ t (k + 1) := by
  obtain ⟨n, rfl⟩ := Nat.exists_eq_add_of_lt hab
  induction n with
  | zero => exact ⟨a, le_refl a, by omega, ha, by simpa using hb⟩
  | succ m ih =>
    by_cases h : q ≤ t (a + m + 1)
    · obtain ⟨k, hk1, hk2, hk3, hk4⟩ := ih (by omega) h
      exact ⟨k, hk1, by omega, hk3, hk4⟩
    · have h' : t (a + m + 1) < q := not_le.mp h
      refine ⟨a + m + 1, by omega, by omega, h', ?_⟩
      have e : a + (m + 1) + 1 = a + m + 1 + 1 := by omega
      rw [e] at hb
      exact hb
