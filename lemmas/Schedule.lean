/-  L-schedule (used by C08): driving a deterministic step function in slices.

  `step s = (s', b)`: one call of `Iterate` from state `s` gives state `s'` and returns `b` ("unfinished").
  `runN n s`: what `engineexport_iterate_n(n)` / `engineexport_run` do: up to `n` steps, stopping after the first
  step that returned `false`; the result is the state and the last returned flag (`true` when no step was made).
  Hypothesis `idem`: once a step has returned `false`, further steps change nothing and return `false`
  (obligation "completed-changes-nothing / completed-returns-false" of C09 on the real `Iterate`).

  Results: the final state of a run that reached `false` does not depend on the slice length (`unique_end`),
  slices compose (`compose_true`), and slices after the end are no-ops (`after_end`).  Hence every partition of the
  iteration sequence into iterate / iterate_n(k) / run(ms) calls ends in the same state. -/

def runN {σ : Type} (step : σ → σ × Bool) : Nat → σ → σ × Bool
  | 0, s => (s, true)
  | n+1, s =>
    match step s with
    | (s', true) => runN step n s'
    | (s', false) => (s', false)

theorem after_end {σ : Type} (step : σ → σ × Bool)
    (idem : ∀ s s', step s = (s', false) → step s' = (s', false))
    (s t : σ) (h : step s = (t, false)) : ∀ m, m ≥ 1 → runN step m t = (t, false) := by
  intro m hm
  cases m with
  | zero => exact absurd hm (by decide)
  | succ k =>
    have h2 := idem s t h
    simp [runN, h2]

theorem compose_true {σ : Type} (step : σ → σ × Bool) :
    ∀ (n m : Nat) (s t : σ), runN step n s = (t, true) → runN step (n + m) s = runN step m t := by
  intro n
  induction n with
  | zero =>
    intro m s t h
    simp [runN] at h
    simp [h]
  | succ k ih =>
    intro m s t h
    have e : k + 1 + m = (k + m) + 1 := by omega
    rw [e]
    have hl : runN step (k + m + 1) s =
        (match step s with
         | (s', true) => runN step (k + m) s'
         | (s', false) => (s', false)) := rfl
    have hr : runN step (k + 1) s =
        (match step s with
         | (s', true) => runN step k s'
         | (s', false) => (s', false)) := rfl
    rw [hl]
    rw [hr] at h
    cases hs : step s with
    | mk s' b =>
      cases b with
      | true =>
        simp [hs] at h ⊢
        exact ih m s' t h
      | false =>
        simp [hs] at h

theorem unique_end {σ : Type} (step : σ → σ × Bool) :
    ∀ (n m : Nat) (s t t' : σ), runN step n s = (t, false) → runN step m s = (t', false) → t = t' := by
  intro n
  induction n with
  | zero =>
    intro m s t t' h
    simp [runN] at h
  | succ k ih =>
    intro m s t t' h h'
    cases m with
    | zero => simp [runN] at h'
    | succ j =>
      unfold runN at h h'
      cases hs : step s with
      | mk s' b =>
        cases b with
        | true =>
          simp [hs] at h h'
          exact ih j s' t t' h h'
        | false =>
          simp [hs] at h h'
          rw [← h, ← h']
