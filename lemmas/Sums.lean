/-  Finite-sum lemmas used by C02 and C14 (Lean 4 + Mathlib).

  The contracts proved on the real code give, per store / per event / per interface, a point-wise statement; these lemmas
  turn them into statements about system-wide totals.
    L_sum      writing v into entry (i0, s) changes the column sum of species s' by v - old when s' = s, not otherwise
               (2-D indexing; the flat index i*S+s of the engine is a bijection onto Fin M x Fin S for s < S)
    L_lin      a step adding k·sto to the amounts of one cell leaves every combination c with c·sto = 0 unchanged
    L_pairing  a flux that changes sign under a fixed-point-free involution of the directed interfaces sums to zero -/
import Mathlib

open Finset BigOperators

theorem L_sum {M S : ℕ} (a : Fin M → Fin S → ℝ) (i0 : Fin M) (s s' : Fin S) (v : ℝ) :
    ∑ i, (Function.update a i0 (Function.update (a i0) s v)) i s'
      = ∑ i, a i s' + (if s = s' then v - a i0 s else 0) := by
  have key : ∀ i, (Function.update a i0 (Function.update (a i0) s v)) i s'
      = a i s' + (if i = i0 then (if s = s' then v - a i0 s else 0) else 0) := by
    intro i
    by_cases hi : i = i0
    · subst hi
      by_cases hs : s = s'
      · subst hs; simp
      · have hs' : s' ≠ s := fun h => hs h.symm
        simp [Function.update_of_ne hs', hs]
    · simp [hi]
  simp only [key, Finset.sum_add_distrib, Finset.sum_ite_eq', Finset.mem_univ, if_true]

theorem L_lin {S : ℕ} (c x sto : Fin S → ℝ) (k : ℝ) (h : ∑ s, c s * sto s = 0) :
    ∑ s, c s * (x s + k * sto s) = ∑ s, c s * x s := by
  have : ∀ s, c s * (x s + k * sto s) = c s * x s + k * (c s * sto s) := by
    intro s; ring
  simp only [this, Finset.sum_add_distrib, ← Finset.mul_sum, h, mul_zero, add_zero]

theorem L_pairing {E : Type} [Fintype E] [DecidableEq E] (F : E → ℝ) (mate : E → E)
    (inv : ∀ e, mate (mate e) = e) (nofix : ∀ e, mate e ≠ e) (anti : ∀ e, F (mate e) = - F e) :
    ∑ e, F e = 0 := by
  apply Finset.sum_involution (fun e _ => mate e)
  · intro e _; rw [anti e]; ring
  · intro e _ _; exact nofix e
  · intro e _; exact Finset.mem_univ _
  · intro e _; exact inv e
