# table read by tools_manifest.py
claim("C05", "proof",
      "Every operator method of UnitValue/UnitArray (+ - * / % ** unary comparisons, 8 operand pairings) is executed "
      "symbolically from the real source of units.py with fully symbolic values, unit systems (11x10x10 each), "
      "integer exponent vectors and array lengths; each contract clause (dimension algebra, SI homomorphism at a "
      "Skolem index, raises-iff) is an SMT obligation discharged for all inputs. The decision tree of every case is exhausted.",
      "Assumes floats are reals (A1), positive homogeneity of float % (instances), tables are arbitrary positive tables "
      "(SI values are C06.b). Trusted: the proxy/shim layer (conformance-tested against the untouched code each run), z3/cvc5.",
      "deductive: symbolic execution of real source + SMT (z3, cvc5)", "DESIGN.md 3/C05")
claim("C06", "proof",
      "convert_unitvalue / UnitValue.convert / UnitArray.convert / convert_value / compute_conversion_factor are executed "
      "symbolically on fully symbolic quantities and targets (Units, UnitValue, UnitsSystem, dict forms; scalar and "
      "symbolic-length arrays): value = q*PROD (src/dst)^dim, dimension and target system, raises-iff-other-dimension, and "
      "identity / there-and-back / composition of real conversions are SMT obligations for all inputs. The 31 table "
      "entries, Avogadro's number, the 16 derived symbols at exponents -9..9 and the u-spellings are checked exhaustively "
      "against an independent SI table on the untouched module.",
      "A1: exact equality over the reals, the 1e-12 rounding bound itself is not proved. String targets are covered by "
      "C18's parser contract. Trusted: proxy/shim layer, z3/cvc5.",
      "deductive: symbolic execution of real source + SMT; finite exhaustive table check", "DESIGN.md 3/C06")
claim("C18", "proof",
      "parse_units, parse_unitvalue, Units.__str__ and UnitValue.__str__ are executed on token strings: for every string of "
      "the stated grammar (1-3 factors over the 47 symbols incl. litre/molar families, both separators, any integer exponent, "
      "any finite double as value) the dimension, base units and SI scale of the result equal the symbol definitions, "
      "a/b == a.b-1, order does not matter, conflicting base units raise iff present; print->parse round trips; each "
      "malformed token class (unknown symbol, empty factor, signed/fractional/misplaced exponent, embedded blanks, unseparated "
      "or non-numeric value) raises on every path. All obligations discharged by SMT with the decision tree exhausted.",
      "Claim is over the token grammar, not over all strings. Trusted: token-string model of str operations (R4 pseudo "
      "characters), A5 float(repr(x))==x. Quick tier covers 3-factor strings with separators './'; thorough all four pairs.",
      "deductive: token-level symbolic execution of real parser/printer + SMT", "DESIGN.md 3/C18")
claim("C19", "proof",
      "Reaction(...) is executed on token strings for every equation shape (0-4 terms on the explored side, coefficient "
      "present/absent, every aliasing pattern of labels; 291 shapes per side, symbolic non-negative coefficients, blank runs of "
      "any length): per-species reactant/product coefficients with repeats summed, net change, orders, rate-constant "
      "dimensions (3n-3,-1,1-n), print->parse round trip; setters (number gets the reaction's units, quantity of another "
      "dimension raises iff wrong), split, equilibrium constant (scalar and per-environment with default fallback), "
      "malformed equations raise, network validity (raises iff undeclared species / duplicate labels) over all small label "
      "assignments. All obligations discharged by SMT.",
      "Labels are concrete names with all aliasing patterns (label opacity assumption); orders 0..8 via symbolic coefficients. "
      "Network validity is an exhaustive enumeration over 3 names x 2 species x 2 reactions (finite, exhaustive).",
      "deductive: token-level symbolic execution of real source + SMT", "DESIGN.md 3/C19")
claim("C13", "proof",
      "generate_species_state / generate_system_state / chemostat generators / RDSystem constructor and the per-entry "
      "getters and setters are executed symbolically on grids of symbolic size (w,h,d), symbolic environment maps, symbolic "
      "densities/flags/volumes and independent symbolic unit systems for species, network, space, nodes and system. The loop "
      "over cells is handled by a generic iteration (rule R1) with ite-merge of the environment cases. Obligations: "
      "si(state[s*n+i]) = density(env_i | default | 0) * volume, flag map, species-major index for 3 species forms x 3 "
      "position forms, get/set touch exactly that entry (frame at a Skolem index), regeneration reflects edits.",
      "Structure is enumerated, not symbolic: S <= 3 species, E <= 2 environments, graphs of 2 nodes, 6 dictionary shapes. "
      "L9 (3-D index bound) is assumed as a lemma instance. Valid positions only (invalid: C20). A1.",
      "deductive: symbolic execution of real source (generic iteration R1/R2) + SMT", "DESIGN.md 3/C13")
claim("C15", "proof",
      "RDGridSpace.get_cell_index / get_cell_coordinates / is_within_bounds / are_neighbors / get_neighbors are executed "
      "symbolically for symbolic w,h,d >= 1, all 8 boundary combinations and symbolic cells in all position forms: "
      "index<->coordinates bijection in both directions, is_within_bounds iff inside (accessors raise otherwise), "
      "are_neighbors iff one wrap-aware step along one axis, symmetry, get_neighbors sound and complete w.r.t. that relation. "
      "Nonlinear index arithmetic is staged through lemma schemas (quotient/remainder uniqueness, trunc = quotient, 3-D bound, "
      "monotonicity) each proved by z3 in isolation in the same run. grid_to_graph is a bounded stand-in: exhaustive over "
      "shapes <= 3x3x2 (thorough 4x4x3) x 8 boundary combinations on the untouched code.",
      "Python side only so far: the engine's neighbour table and the kinetics candidate list are checked with C01/C11 once the "
      "C++ front end covers them. grid_to_graph is bounded (not proved). A1 for int(a/b).",
      "deductive: symbolic execution of real source + SMT with in-run proved lemma schemas; bounded exhaustive stand-in for grid_to_graph",
      "DESIGN.md 3/C15")
claim("C20", "proof",
      "For each listed entry point the contract 'raises iff the input is invalid' is checked: dimension mismatch for density, "
      "D, per-environment density, cell volume, node volume, edge surface/distance, state, t_sample, time step, t_max, sampling "
      "interval, set_state (with state-unchanged frame) over fully symbolic quantities; non-positive grid sizes and wrong "
      "cell_env length over symbolic sizes; positions outside a symbolic grid in 3 forms for get/set_state, get/set_chemostat, "
      "get_cell_index, are_neighbors; graph node index; environment index outside the network's list. Finite classes "
      "(unknown / doubly-aliased / missing keys of the 11 dictionary readers, unit symbols, axes, boundary modes, sampling "
      "policies, processing modes, environment names, unknown species in 5 accessors) are enumerated exhaustively on the untouched code.",
      "Rate constants of the wrong order are in C19, unit text in C18, coarse-graining maps in C16, trajectory positions in C17. "
      "Structure enumerated (small networks). A1.",
      "deductive: symbolic execution of real source + SMT; finite exhaustive enumeration for key/mode classes", "DESIGN.md 3/C20")
claim("C17", "proof",
      "RDTrajectory accessors are executed symbolically on a trajectory with symbolic number of samples, symbolic grid size, "
      "symbolic data/times and independent unit systems: point accessor, per-sample state, per-cell trajectory and direct "
      "indexing at sample*S*n + species*n + cell return the same element with the data's units (numpy reshape modelled "
      "row-major), whole-state accessor = contiguous block, merged trajectory = sum over cells (sum-congruence obligation), "
      "species by label/index/object, cells by index/coordinates. The three lookup policies are verified through a search-loop "
      "rule (return inside a generic iteration, Skolemised least index + instantiable universal facts): last sample not after, "
      "first sample not before, closest with ties to the earlier, None iff no such sample, for queries as numbers or "
      "quantities in any time unit.",
      "S = 3 species (structure). Sortedness of times is the property's quantifier (instances at all read indices). L-IVT "
      "(discrete intermediate value) is used as a Skolemised lemma instance and proved in Lean 4 + Mathlib (lemmas/Ivt.lean, "
      "re-checked on every run). A1.",
      "deductive: symbolic execution of real source (search-loop rule, fold ghosts) + SMT", "DESIGN.md 3/C17")
claim("C01", "proof",
      "Python realisations of the rate law are executed symbolically and compared with one spec function (mass action "
      "k*V*PROD (x/V)^nu; Bernstein interface diffusivity; exchange constant Dij*s/(d*V)): compute_reaction_rates for all "
      "side shapes of orders 0..4 with per-environment constants, symbolic cell / environment map / state / volumes and "
      "independent unit systems; compute_diffusion_rates on grids (neighbour test replaced by its C15 contract) and graphs "
      "(own units per node/edge); compute_dspeciesdt for grids (per axis: every boundary situation, both boundary modes) and "
      "graphs with the two rate functions replaced by their contracts (which reactions / which neighbour pairs are requested, "
      "net stoichiometry weights, flux signs); the exported ODE right-hand side make_dxdtf equals the same law (V^(1-order) "
      "form identified with the mass-action form). Real-arithmetic identities are decided by exact rational-function "
      "normalisation, the rest by z3/cvc5. Returned dimension amount/time and units system on every path.",
      "Engine side (Euler step, matrix builders, ctypes seam) is not yet under contract in this check: see C01 notes in "
      "DESIGN.md; 3-D grids all-at-once and compute_dstatedt layout are bounded stand-ins (random / small concrete systems). "
      "Structure enumerated (S<=3, E<=2, 2 reactions). A1, A3 (real cube root).",
      "deductive: symbolic execution of real source + exact rational-function normalisation + SMT; modular (callee contracts)",
      "DESIGN.md 3/C01")
claim("C03", "proof",
      "Python side: compute_dspeciesdt returns 0 iff the flag at (that species, that cell) is set and chemostats are applied, "
      "else the rate law (grid per axis and graph, species 0 and 1, with callee contracts); make_dxdtf zeroes exactly the "
      "flagged species; RDSystem.apply_reaction changes entry (species, cell) by n x net stoichiometry iff its flag is 0 and "
      "leaves every other entry of the symbolic-length state unchanged (frame at a Skolem index), update / copy modes.",
      "Engine writers (Euler Compute_dxdt, tau-leap Apply_nevt, Gillespie ApplyReaction/ApplyDiffusion) are not yet under "
      "contract in this check. Structure enumerated. A1.",
      "deductive: symbolic execution of real source + SMT; modular (callee contracts)", "DESIGN.md 3/C03")
claim("C11", "proof",
      "The C++ engine of the working tree is read through clang's typed AST and interpreted symbolically. Run-time-error "
      "obligations are generated (not written) at every vector/buffer subscript, integer division/modulo, delete, read of an "
      "uninitialised scalar and library precondition (poisson mean > 0, normal stddev > 0), and discharged for: Init of the six "
      "algorithm classes from the ABI precondition (establishing the class invariant, incl. quantified invariants of the ragged "
      "graph tables), Iterate and Sample of the six classes from an arbitrary object satisfying the class invariant (all helpers "
      "inlined), the transposition/MkVec/GenerateStochasticDistribution functions and the exported API with the typestate "
      "invariant of the globals. Loops are cut by invariants (automatic counter bounds + sidecar content invariants; entry-wise "
      "invariants are checked at every store and instantiated at every read). Counter-examples are replayed on the real engine "
      "built with ASan+UBSan+_GLIBCXX_ASSERTIONS (scenario battery, also run as a bounded stand-in on every run).",
      "A1/A9: int arithmetic mathematical (no overflow obligations), doubles real; libstdc++ replaced by contracts; ABI precondition "
      "of Init assumed here (established by the Python seam); for the exact stochastic engine the index safety of ApplyDiffusion "
      "relies on the state being a vector of non-negative integers (integrality itself is C07's obligation). Known finding: the "
      "redistribution of sub-molecule totals does not terminate (hang, listed in known_findings.txt).",
      "deductive: symbolic interpretation of clang AST with loop invariants + SMT; sanitizer replay battery", "DESIGN.md 3/C11")
claim("C09", "proof",
      "Engine side, on the real C++ through the clang-AST interpreter: Sample appends (t, copy of the state) iff the per-step flag "
      "is clear and leaves earlier records untouched; SampleOnTSample (while loop cut by a quantified invariant) stops the cursor "
      "at the first requested time after t, covers every skipped time, makes at most one record per step and makes it iff a "
      "requested time was reached; SampleOnInterval records iff a new multiple of the interval was passed; policy dispatch "
      "(every step / none); Iterate of the four fixed-step classes advances t by dt, completes iff t' > t_max >= 0, returns "
      "!complete, and is the identity once complete; Gillespie time strictly increases when an event fires; Init records at t = 0 "
      "exactly for the policies that ask for it and that record holds the initial state; engineexport_get_trajectory writes entry "
      "(sample, species, cell) at sample*S*M + species*M + cell (Skolem pointwise invariant through the triple loop). "
      "Python: RDScript.t_max defaults to the last requested time.",
      "A1 (t = k*dt exact). The Python unmarshalling (_get_data/_get_t_sample) is checked with the seam in C04. Requested times "
      "sorted (quantifier). A2: uniform draws are in (0,1).",
      "deductive: symbolic interpretation of clang AST with loop invariants + SMT", "DESIGN.md 3/C09")
claim("C04", "proof",
      "(i) every dictionary reader (species, reaction, network, grid, graph incl. nodes and edges, system) gives the child the "
      "explicit / parent ('inherit' or absent) / default units system and reads bare numbers as number x scale(that system, field "
      "dimension), explicit-unit quantities (objects and printed text) keep their SI value under any owner system; (ii) the seam: "
      "LibRDEngine.setup is executed symbolically with a recording stand-in for the library and every argument of "
      "engineexport_initialize_grid/_graph - matched by parameter NAME read from clang's AST of engine.cpp - equals SI value / "
      "scale(engine units) (state, cell/node volumes, edge surfaces and distances, rate-constant matrix per environment and directed "
      "reaction, diffusion matrix, sample times, t_max, step, interval) or the exact integer/string (sizes, flags, environment map, "
      "stoichiometry matrices, boundary conditions per axis, policy, processing mode, seed, option), for both engine unit "
      "conventions (script units / molecules); get_output multiplies back by scale(engine units) and reports in the script's units "
      "with a buffer of exactly nsamples*S*n entries.",
      "Homogeneity of the engine's own formulas in its working units (dimension typing of the C++ formulas) is NOT decided by this "
      "check; with C01 (all realisations equal one SI law) the claim covers inputs, marshalling and outputs. Structure enumerated. A1.",
      "deductive: symbolic execution of real source + exact rational-function normalisation + SMT; ABI parameter order from clang AST",
      "DESIGN.md 3/C04")
claim("C10", "proof",
      "Protocol: every exported function of engine.cpp, started in the typestate invariant G (released, or the selected pointer is "
      "live and satisfies the class invariant), re-establishes G with all run-time-error obligations discharged; finalize releases "
      "the object and marks it released (so a second finalize is a no-op). Completion: Iterate on a completed object returns false "
      "and changes neither time, state, cursor nor records (all six classes). Wrapper: LibRDEngine.is_complete is the negation of "
      "the library's last answer and False right after any setup (symbolic run with a recording library). Termination: every loop "
      "reached from Init, Iterate (six classes), iterate_n and the initial-state redistribution is counted (automatic variant) or "
      "has a registered variant proved decreasing and bounded. Isolation and clean slate are exercised on the real library built "
      "from the working tree (concrete scenario) and by the sanitizer battery.",
      "Known findings (known_findings.txt): the redistribution loop has no variant (set-up can hang for sub-molecule totals); all "
      "engine objects share one native simulation (isolation fails by design). Not decided: wall-clock slice loop of "
      "engineexport_run, Gillespie runs whose t_max is never reached, completion after exactly ceil(t_max/dt) steps (induction L7).",
      "deductive: typestate + Iterate contracts + loop variants on clang AST, symbolic wrapper run; concrete isolation scenario",
      "DESIGN.md 3/C10")

claim("C14", "proof",
      "Engine side on the real C++ (clang AST interpreter): SpeciesFirstToMeshFirstArray<double|int> writes out[cell*S+species] = "
      "in[species*M+cell] and MkVec copies entry-wise (Skolem pointwise invariants = every entry); engineexport_initialize_grid/"
      "_graph, per processing mode x engine kind, hand to Init the transposed state unchanged ('none', 'auto'+euler), "
      "GenerateStochasticDistribution(transposed state, M, S, script seed) ('redist', 'auto'+stochastic), or, in Poisson mode, "
      "entries whose draw mean is the real amount of the same (cell, species) entry, zero staying zero (checked at every store "
      "of the processing loop), together with the transposed chemostat map and the seed; an unknown mode is refused with code 4. "
      "GenerateStochasticDistribution: every stored entry is a non-negative integer and is zero where the real amount is zero "
      "(entry invariant checked at every store, incl. the +1 of the correction loop, which needs target >= cumul), and the "
      "species total of the result equals floor(real total): accumulation loops against the recursive column-sum ghost, "
      "the correction loop by the invariant total = tot2 -+ delta_count with a column-sum point-update lemma instance at "
      "every store. Concrete battery on the engine built from the working tree (ASan+UBSan): layout scenario x 4 modes x engines "
      "x space types.",
      "Termination of the correction loop is not proved: it has no variant (known finding shared with C10/C11, sub-molecule "
      "totals hang). Lemma L-sum (point update of a column sum) is proved in Lean 4 + Mathlib (lemmas/Sums.lean, re-checked on every run), the "
      "column-sum unfolding is definitional. A2: "
      "poisson_distribution<int> returns a non-negative int. Draw independence/distribution is a library assumption. The Python "
      "side (mode validation, mode and seed marshalling) is C20/C04. Fixed by this round: Poisson/floor modes did not transpose.",
      "deductive: symbolic interpretation of clang AST with loop invariants, entry invariants and ghost column sums + SMT; sanitizer replay battery",
      "DESIGN.md 3/C14")

claim("C07", "proof",
      "On the real C++ through the clang-AST interpreter, per function with contracts (callers see callee contracts as stubs): "
      "ApplyReaction changes exactly the non-chemostated entries of the chosen cell by the reaction's stoichiometric coefficients "
      "and nothing else (Skolem pointwise invariant), ApplyDiffusion moves exactly one molecule to the neighbour with chemostats "
      "exempt and nothing else; DrawAndApplyEvent applies at most one event, the applied event has a strictly positive propensity "
      "and its interval of partial sums contains the drawn number (a molecule to move exists); ReactionProp = mesh_kr x product of "
      "falling factorials x(x-1)...(x-sub+1), or 0 when a reactant is short (ghost recursive functions, polynomial identities by "
      "the rational-function back end), DiffusionProp = amount x outgoing constant, neither reads the chemostat map; "
      "ComputePropensities stores exactly these values at every channel of the current state (0 towards a missing neighbour); "
      "Gillespie Iterate = ComputePropensities, then exactly one DrawAndApplyEvent iff a0 > 0, then t' = t + log(1/u)/a0 > t with "
      "one fresh draw; the inlined whole step keeps the state a vector of non-negative integers (integrality obligations on). "
      "Tau-leap: Compute_nevt stores at every channel a Poisson wrapper result whose mean is propensity x dt (0 towards a missing "
      "neighbour); the wrapper draws with exactly that mean, or returns 0 without a draw when the mean is not positive. "
      "Concrete battery: 3000 steps of the built engine, each checked to be one possible event.",
      "Statistical statement: reduced to interval membership over consecutive partial sums and to the library's Poisson/uniform "
      "distributions (A2); no statistical test is run. 'Exactly one event when a0 > 0' is proved over the reals for Gillespie3D "
      "(ComputePropensities leaves a0 and the per-cell sums equal to the ghost sums of the channels; no path of DrawAndApplyEvent "
      "leaves the search without an event); for the graph class it is in the concrete step battery only; with doubles the last "
      "interval can be missed by rounding (A1). mesh_kr/mesh_kd (volume scaling, interface constants) are C01's rate-law obligations. "
      "Apply_nevt's net effect (sums over channels) is covered per channel in C02 only. A1.",
      "deductive: symbolic interpretation of clang AST with loop invariants, callee contracts and ghost functions + SMT/rational-function identities; sanitizer replay battery",
      "DESIGN.md 3/C07")

claim("C02", "proof",
      "Per-function contracts on the real C++ (clang-AST interpreter), from which conservation follows by three finite-sum lemmas: "
      "Gillespie ApplyDiffusion keeps every species' column sum (ghost column sum, point-update lemma instantiated at both stores) "
      "and ApplyReaction adds exactly sto[s,r] to every non-chemostated species of one cell and nothing else; tau-leap Apply_nevt "
      "without reactions keeps every non-chemostated species' column sum (loop invariants through its five loops) and its "
      "reaction statement adds sto[j*R+r] x the one count of (cell, reaction) to species j; Euler DiffusionRateDifference = own "
      "outgoing flux minus the neighbour's flux through the same interface (opposite direction slot on grids, in-constant on "
      "graphs), Compute_dxdt stores at every (cell, species) 0 if chemostated, else sum_r sto[s,r] rate(cell,r) - sum over existing "
      "interfaces of that difference (Skolem pointwise invariants with ghost partial sums, quantified invariant for the local rate "
      "vector), Apply_dxdt adds dxdt x dt entry-wise. Pairing of the directed interfaces: on grids proved for all shapes and "
      "boundary conditions (GetNeighborIndex of the neighbour's coordinates in the opposite direction is the cell, with "
      "quotient/remainder uniqueness lemma instances; BuildMeshNeighbors hands over the coordinates whose index is the cell); on "
      "graphs one iteration of SetNeighbors appends exactly the two mate slots (same surface and distance) and leaves the rest "
      "unchanged. Bounded stand-ins on the engine built from the working tree: pairing incl. the in/out constants (grids <= 4x4x3 "
      "x 8 boundary combinations; 6 multigraphs with self loops, parallel edges, zero-diffusivity environment, heterogeneous "
      "volumes) and 2000-step conservation runs of A <-> B with diffusion for the three engines. The Python seam's marshalling "
      "cases (C04) are included.",
      "The lemmas L-sum, L-lin, L-pairing (algebra of finite sums) are proved in Lean 4 + Mathlib (lemmas/Sums.lean, re-checked on "
      "every run), and so is L-mates (lemmas/Mates.lean). Equality of the swapped in/out constants of two mate slots follows from the Build_mesh_kd contract "
      "(C01, thorough tier) and the symmetry of the interface diffusivity; it is checked concretely (bit-identical) in the battery. 'Every recorded sample' follows with C09 (a record is a copy of the "
      "state). Deterministic engine: to rounding (A1 treats doubles as reals).",
      "deductive: symbolic interpretation of clang AST with loop invariants, ghost sums and callee contracts + SMT; bounded stand-in for interface pairing; sanitizer replay battery",
      "DESIGN.md 3/C02")

claim("C08", "proof",
      "Frame/effect obligations carried along the symbolic interpretation of the real C++: Iterate of the six algorithm classes "
      "(helpers inlined) reads and writes only fields of its own object and locals - no engine global, no function-local static, "
      "no clock; any other name is outside the interpreter's model and makes the run undecided rather than pass; every random draw "
      "takes the object's own generator field, the deterministic engine draws nothing and never touches the generator (seed "
      "independence); Init seeds that generator with exactly its seed argument and leaves no scalar field unset except those the "
      "step writes before reading (the step obligations are run with exactly those fields undefined); engineexport_iterate / "
      "iterate_n / run change the simulation only through Iterate calls on the live object, return the last result (true when "
      "none), stop after a false result, and the clock is read by run only. Lemma L-schedule (any slicing of a deterministic step "
      "that is idempotent once complete ends in the same state; extra slices are no-ops) is proved in Lean 4 and re-checked on "
      "every run; idempotence once complete is C09's obligation on the real Iterate. Python: RDScript.rng_seed keeps the given "
      "integer or draws one and keeps it; simulate_script calls setup, run until false, get_output, finalize in that order "
      "(bounded: mock engine, 0..3 slices). A syntactic frame obligation over every function body clang reports for the engine "
      "sources (set-up helpers and GenerateStochasticDistribution included): no local variable of static storage.",
      "Bit-identity of floating point and determinism of std::mt19937/distributions for a given state are assumed (A2). That the "
      "seed and a copy of the script reach the engine / the trajectory is C04's seam obligation; independence from other live "
      "engine objects does not hold (known finding of C10: one native simulation per process).",
      "deductive: effect (frame) analysis over the symbolic interpretation of clang AST + SMT; Lean 4 lemma", "DESIGN.md 3/C08")

claim("C16", "other",
      "Bounded in the grid shape, unbounded in the values: for every grid of a stated list (1x1x1, 2x1x1, 3x1x1, 1x2x1, 2x2x1, "
      "1x1x3; thorough adds 4x1x1, 2x1x2, 1x2x2), every environment pattern, two chemostat patterns and EVERY index map in "
      "{-1..n-1}^n (valid or not; one path each), the real coarsegrain.py is executed by the path engine with symbolic cell "
      "volume, amounts, trajectory data and unit systems, and compared with an independent statement computed from coordinates: "
      "the map is accepted iff valid by the documented rules; number of groups; group volume = members x cell volume (SI); group "
      "environment; edges = exactly the pairs of groups sharing a face, no self-loop, no duplicate; contact surface = shared faces "
      "x face area; distance^2 = squared distance of member centroids x edge^2 (ghost cube root); group amount = sum of member "
      "amounts (SI), group chemostated iff any member; un-coarse-graining: dropped cells zero, every member gets value/|group| "
      "(so totals are preserved), units, times and system kept. Identity-map simulation = plain simulation on the real "
      "deterministic engine for 3 grids (concrete, tolerance 1e-9); that the coarse-grained graph reaches the native engine in the "
      "script's units (volumes, edge surfaces and distances) is the graph seam contract shared from C04 (unbounded).",
      "This is a bounded stand-in in the shape/map dimension, not a proof for all grids: the functions index lists of objects by map "
      "entries and de-duplicate edges by list membership, which the generic-iteration rules cannot abstract. Counted as bounded "
      "in the evidence. Fixed in this round: maps dropping cells of two different environments were rejected.",
      "deductive over values (symbolic execution of real source + SMT) for exhaustively enumerated small shapes and index maps: bounded stand-in",
      "DESIGN.md 3/C16")

claim("C12", "proof",
      "Dictionary layer, symbolic (real *_to_dict / *_from_dict executed by the path engine; quantities travel as the text "
      "str(UnitValue) with symbolic number atoms and come back through parse_unitvalue): for networks with scalar and "
      "per-environment densities / diffusion coefficients / chemostat flags / rate constants and unit systems at network, species "
      "and reaction level, grids (all boundary conditions), graphs with nodes and edges carrying their own units, systems with "
      "explicit state and chemostat map, and scripts with every parameter, from_dict(to_dict(x)) has the same physical content "
      "as x (SI comparison, dimensions, unit systems, labels, stoichiometry, geometry, flags, policy, processing mode, seed) and "
      "to_dict(from_dict(to_dict(x))) equals to_dict(x) leaf by leaf; the space reader dispatches on 'type'. The readers' "
      "aliases/defaults/units inheritance are C04's reader cases (included). JSON text and file layers are checked on concrete "
      "random models on the untouched code (bounded stand-in): json.dumps/loads round trip with identical re-serialisation, "
      "save/load of network, system, script, a multi-file layout with relative paths and an external .npy state read from "
      "another working directory, and save/load of a simulated trajectory in both storage modes.",
      "Structure (2 species, 2 reactions, 2 environments, grid 2x3x1 / 2x1x1, 3-node graph) is fixed per case; numbers, flags and "
      "unit systems are symbolic. t_max is taken positive in the script cases. JSON/file layers are concrete (the JSON encoder and "
      "numpy's file format are C code): bounded. Exhaustive alias enumeration is C20's. Fixed in this round: NameError in "
      "rdgraphspaceedge_to_dict, init_state_processing dropped by the script dictionary, save_rdscript unusable.",
      "deductive: symbolic execution of real source (token strings) + SMT; bounded concrete conformance for the JSON and file layers",
      "DESIGN.md 3/C12")
