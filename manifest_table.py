# table read by tools_manifest.py
claim("C05", "proof",
      "Every operator method of UnitValue/UnitArray (+ - * / % ** unary comparisons, 8 operand pairings) is executed "
      "symbolically from the real source of units.py with fully symbolic values, unit systems (11x10x10 each), "
      "integer exponent vectors and array lengths; each contract clause (dimension algebra, SI homomorphism at a "
      "Skolem index, raises-iff) is an SMT obligation discharged for all inputs. The decision tree of every case is exhausted.",
      "Assumes floats are reals (A1), positive homogeneity of float % (instances), tables are arbitrary positive tables "
      "(SI values are C06.b). Trusted: the proxy/shim layer (conformance-tested against the untouched code each run), z3/cvc5.",
      "deductive: symbolic execution of real source + SMT (z3, cvc5)", "DESIGN.md 3/C05")
