# table read by tools_manifest.py
claim("C05", "proof",
      "Every operator method of UnitValue/UnitArray (+ - * / % ** unary comparisons, 8 operand pairings) is executed "
      "symbolically from the real source of units.py with fully symbolic values, unit systems (11x10x10 each), "
      "integer exponent vectors and array lengths; each contract clause (dimension algebra, SI homomorphism at a "
      "Skolem index, raises-iff) is an SMT obligation discharged for all inputs. The decision tree of every case is exhausted.",
      "Assumes floats are reals (A1), positive homogeneity of float % (instances), tables are arbitrary positive tables "
      "(SI values are C06.b). Trusted: the proxy/shim layer (conformance-tested against the untouched code each run), z3/cvc5.",
      "deductive: symbolic execution of real source + SMT (z3, cvc5)", "DESIGN.md 3/C05")
claim("C06", "proof",
      "convert_unitvalue / UnitValue.convert / UnitArray.convert / convert_value / compute_conversion_factor are executed "
      "symbolically on fully symbolic quantities and targets (Units, UnitValue, UnitsSystem, dict forms; scalar and "
      "symbolic-length arrays): value = q*PROD (src/dst)^dim, dimension and target system, raises-iff-other-dimension, and "
      "identity / there-and-back / composition of real conversions are SMT obligations for all inputs. The 31 table "
      "entries, Avogadro's number, the 16 derived symbols at exponents -9..9 and the u-spellings are checked exhaustively "
      "against an independent SI table on the untouched module.",
      "A1: exact equality over the reals, the 1e-12 rounding bound itself is not proved. String targets are covered by "
      "C18's parser contract. Trusted: proxy/shim layer, z3/cvc5.",
      "deductive: symbolic execution of real source + SMT; finite exhaustive table check", "DESIGN.md 3/C06")
