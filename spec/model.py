"""Builders of (symbolic or concrete) networks, spaces and systems for the harnesses.

Structure (number of species / reactions / environments, dictionary shapes) is concrete
and enumerated by the cases; every number, unit system, grid size, environment map
and state is a full-domain symbol in symbolic mode.
"""
from vc.core.api import KINDS
from spec import quant as Q

ENVS = ["e0", "e1", "e2"]
SPECIES = ["A", "B", "C", "D"]

# per-environment value shapes for a network with environments ENVS[:E]
#   'scalar'            v
#   'dict:e0'           {"e0": v0}                      (others: documented default)
#   'dict:e0,default'   {"e0": v0, "default": vd}
#   'dict:default'      {"default": vd}
#   'dict:e0,e1'        {"e0": v0, "e1": v1}
#   'dict:e0+e1'        {"e0,e1": v01}   comma key
SHAPES = ["scalar", "dict:e0", "dict:e0,default", "dict:default", "dict:e1,default", "dict:e0+e1"]


def mk_system(api, pfx):
    U = api.mod("units")
    return U.UnitsSystem(space=api.enum(pfx + "_sp", "space"), time=api.enum(pfx + "_ti", "time"),
                         quantity=api.enum(pfx + "_qu", "quantity"))


class EnvValue:
    """a per-environment quantity as given to a setter, with its spec-side meaning"""

    def __init__(self, api, pfx, shape, dim, default_si=0, positive=False, as_bool=False, nonneg=False):
        self.api, self.shape, self.dim = api, shape, dim
        self.vals = {}
        self.as_bool = as_bool

        def new(tag):
            if as_bool:
                return api.bool("%s_%s" % (pfx, tag))
            if nonneg:
                return api.real("%s_%s" % (pfx, tag), lo=0, hi=10**9)
            return api.real("%s_%s" % (pfx, tag), positive=positive)
        if shape == "scalar":
            self.vals["*"] = new("v")
            self.arg = self.vals["*"]
        else:
            keys = shape.split(":")[1].split(",")
            self.arg = {}
            for k in keys:
                kk = k.replace("+", ",")
                self.vals[kk] = new(kk.replace(",", "_"))
                self.arg[kk] = self.vals[kk]

    def lookup(self, env):
        """number given for environment `env` (None: documented default applies)"""
        if "*" in self.vals:
            return self.vals["*"]
        for k, v in self.vals.items():
            if k != "default" and env in [x.strip() for x in k.split(",")]:
                return v
        if "default" in self.vals:
            return self.vals["default"]
        return None


def dims_of(name):
    return {"density": {"space": -3, "time": 0, "quantity": 1},
            "D": {"space": 2, "time": -1, "quantity": 0},
            "volume": {"space": 3, "time": 0, "quantity": 0},
            "quantity": {"space": 0, "time": 0, "quantity": 1},
            "time": {"space": 0, "time": 1, "quantity": 0},
            "surface": {"space": 2, "time": 0, "quantity": 0},
            "distance": {"space": 1, "time": 0, "quantity": 0}}[name]


def si_number(api, x, sys, dim):
    """SI value of a bare number stated in unit system `sys` for a field of dimension `dim`"""
    return api.num(x) * Q.scale(api, sys, dim)


class Net:
    pass


def mk_network(api, S=1, E=1, dens_shapes=None, chst_shapes=None, D_shapes=None, reactions=(),
               pfx="n", species_units=True):
    """network with S species, E environments.  reactions: list of (equation text, kf shape, kr shape)"""
    N = api.mod("rdnetwork")
    net = Net()
    net.us = mk_system(api, pfx + "us")
    net.E, net.S = E, S
    net.envs = ENVS[:E]
    net.dens, net.chst, net.D, net.sp_us = [], [], [], []
    species = []
    for s in range(S):
        us = mk_system(api, "%ss%dus" % (pfx, s)) if species_units else net.us
        dens = EnvValue(api, "%ss%ddens" % (pfx, s), (dens_shapes or ["scalar"] * S)[s], dims_of("density"))
        chst = EnvValue(api, "%ss%dchst" % (pfx, s), (chst_shapes or ["scalar"] * S)[s], None, as_bool=True)
        D = EnvValue(api, "%ss%dD" % (pfx, s), (D_shapes or ["scalar"] * S)[s], dims_of("D"), nonneg=True)
        species.append(N.Species(SPECIES[s], D=D.arg, density=dens.arg, chstt=chst.arg, units_system=us))
        net.dens.append(dens)
        net.chst.append(chst)
        net.D.append(D)
        net.sp_us.append(us)
    net.rk = []
    reacs = []
    for r, (eq, kfs, krs) in enumerate(reactions):
        us = mk_system(api, "%sr%dus" % (pfx, r))
        kf = EnvValue(api, "%sr%dkf" % (pfx, r), kfs, None, nonneg=True)
        kr = EnvValue(api, "%sr%dkr" % (pfx, r), krs, None, nonneg=True)
        reacs.append(N.Reaction(eq, kf=kf.arg, kr=kr.arg, units_system=us))
        net.rk.append((kf, kr, us))
    net.obj = N.RDNetwork(species=species, reactions=reacs, environments=list(net.envs), units_system=net.us)
    return net


class Grid:
    pass


def mk_grid(api, E=1, pfx="g", env_form="array", dims=None, bc=None):
    """grid with symbolic w,h,d >= 1, symbolic environment map with values in [0, E)"""
    G = api.mod("rdgridspace")
    g = Grid()
    g.us = mk_system(api, pfx + "us")
    if dims is None:
        g.w = api.int(pfx + "_w", 1, 10**6, draw=(1, 3))
        g.h = api.int(pfx + "_h", 1, 10**6, draw=(1, 3))
        g.d = api.int(pfx + "_d", 1, 10**6, draw=(1, 2))
    else:
        g.w, g.h, g.d = dims
    g.n = g.w * g.h * g.d
    g.vol = api.real(pfx + "_vol", positive=True)
    if env_form == "scalar":
        g.env0 = api.int(pfx + "_env", 0, E - 1)
        env_arg = g.env0
        g.env = lambda i: g.env0
    else:
        arr = api.array(pfx + "_env", g.n, sort="int")
        if api.mode == "conc":
            arr = [abs(int(x)) % E for x in arr]
        else:
            api.constrain_array(arr, 0, E)
        g.env_arr = arr
        env_arg = arr
        g.env = lambda i: api.arr_get(arr, i)
    g.bc = {}
    bcarg = {}
    for ax in ("x", "y", "z"):
        if bc is None:
            v = api.enum(pfx + "_bc" + ax, "bc", ["reflecting", "periodical"])
        else:
            v = bc[ax]
        g.bc[ax] = v
        bcarg[ax] = v
    g.obj = G.RDGridSpace(w=g.w, h=g.h, d=g.d, cell_env=env_arg, cell_vol=g.vol, boundary_conditions=bcarg,
                          units_system=g.us)
    g.E = E
    return g


def assume_env_range(api, g, i):
    """environment index of cell i is a valid index (valid system)"""
    e = g.env(i)
    api.assume(api.and_(api.le(0, e), api.lt(e, g.E)))
    return e


class Graph:
    pass


def mk_graph(api, N=2, edges=((0, 1),), E=1, pfx="q", node_units=True, own_units_nodes=None, own_units_edges=None):
    GS = api.mod("rdgraphspace")
    g = Graph()
    g.us = mk_system(api, pfx + "us")
    g.N = N
    g.vols, g.envs, g.node_us = [], [], []
    nodes = []
    for i in range(N):
        own = node_units and (own_units_nodes is None or i in own_units_nodes)
        us = mk_system(api, "%sn%dus" % (pfx, i)) if own else g.us
        v = api.real("%sn%dvol" % (pfx, i), positive=True)
        e = api.int("%sn%denv" % (pfx, i), 0, E - 1)
        nodes.append(GS.RDGraphSpaceNode(volume=v, environment=e, units_system=us))
        g.vols.append(v)
        g.envs.append(e)
        g.node_us.append(us)
    g.edges = []
    eds = []
    for k, (i, j) in enumerate(edges):
        own = node_units and (own_units_edges is None or k in own_units_edges)
        us = mk_system(api, "%se%dus" % (pfx, k)) if own else g.us
        sf = api.real("%se%dsfc" % (pfx, k), positive=True)
        ds = api.real("%se%ddst" % (pfx, k), positive=True)
        eds.append(GS.RDGraphSpaceEdge(i, j, surface=sf, distance=ds, units_system=us))
        g.edges.append((i, j, sf, ds, us))
    g.obj = GS.RDGraphSpace(nodes=nodes, edges=eds, units_system=g.us)
    g.n = N
    g.E = E
    g.env = lambda i: g.envs[i]
    return g
