"""Staged arithmetic for the grid index <-> coordinates bijection.

The code decomposes a linear index with  i % w,  int((i % (w*h))/w),  int(i/(w*h)).
These helpers add ground instances of lemma schemas (vc/core/lemmas.py, each proved by z3
in isolation) so that the remaining obligations are linear.  No-ops in concrete mode.
"""


def lin(g, x, y, z):
    return x + y * g.w + z * g.w * g.h


def _z(api):
    import z3
    from vc.core import lemmas
    from vc.core.proxies import zint, PYDIV, PYMOD
    return z3, lemmas, zint, PYDIV, PYMOD


def use(api, name, *args):
    if api.mode == "conc":
        return
    z3, lemmas, zint, PYDIV, PYMOD = _z(api)
    api.ctx.assume(lemmas.instance(name, *[zint(a) if not z3.is_expr(a) else a for a in args]))
    api.lemmas_proved = getattr(api, "lemmas_proved", 0) + 1


def coords_to_index(api, g, x, y, z):
    """facts for i = x + y*w + z*w*h with (x,y,z) inside the grid: i in range and the code's
    decomposition of i gives back (x,y,z)"""
    i = lin(g, x, y, z)
    if api.mode == "conc":
        return i
    z3, lemmas, zint, PYDIV, PYMOD = _z(api)
    from vc.core.proxies import divmod_fact, trunc_fact
    xz, yz, zz, w, h, d, iz = zint(x), zint(y), zint(z), zint(g.w), zint(g.h), zint(g.d), zint(i)
    wh = w * h
    c = api.ctx
    use(api, "B", xz, yz, zz, w, h, d)
    use(api, "P", w, h)
    for (a, b) in ((iz, w), (iz, wh)):
        c.assume(divmod_fact(a, b))
    r2 = PYMOD(iz, wh)
    c.assume(divmod_fact(r2, w))
    use(api, "U", w, xz, yz + h * zz, PYMOD(iz, w), PYDIV(iz, w))
    use(api, "S", w, yz, h)                      # x + w*y < w*h
    use(api, "U", wh, xz + w * yz, zz, r2, PYDIV(iz, wh))
    use(api, "U", w, xz, yz, PYMOD(r2, w), PYDIV(r2, w))
    use(api, "T", r2, w)
    use(api, "T", iz, wh)
    c.assume(trunc_fact(z3.ToReal(r2) / z3.ToReal(w)))
    c.assume(trunc_fact(z3.ToReal(iz) / z3.ToReal(wh)))
    return i


def index_to_coords(api, g, i):
    """facts for 0 <= i < w*h*d: the code's decomposition is in range and recomposes to i.
    returns the spec coordinates (x, y, z)"""
    if api.mode == "conc":
        w, h = g.w, g.h
        return i % w, (i % (w * h)) // w, i // (w * h)
    z3, lemmas, zint, PYDIV, PYMOD = _z(api)
    from vc.core.proxies import divmod_fact, trunc_fact, SInt
    w, h, d, iz = zint(g.w), zint(g.h), zint(g.d), zint(i)
    wh = w * h
    c = api.ctx
    use(api, "P", w, h)
    r2 = PYMOD(iz, wh)
    for (a, b) in ((iz, w), (iz, wh), (r2, w)):
        c.assume(divmod_fact(a, b))
    use(api, "R", iz, w, h, d)
    use(api, "U", w, PYMOD(r2, w), PYDIV(r2, w) + h * PYDIV(iz, wh), PYMOD(iz, w), PYDIV(iz, w))
    use(api, "T", r2, w)
    use(api, "T", iz, wh)
    c.assume(trunc_fact(z3.ToReal(r2) / z3.ToReal(w)))
    c.assume(trunc_fact(z3.ToReal(iz) / z3.ToReal(wh)))
    return SInt(PYMOD(iz, w)), SInt(PYDIV(r2, w)), SInt(PYDIV(iz, wh))


def wrap_facts(api, size, v):
    """facts about the periodic wrap (size + v) % size for v in [-1, size]: instances of quotient /
    remainder uniqueness for the three possible quotients"""
    if api.mode == "conc":
        return
    z3, lemmas, zint, PYDIV, PYMOD = _z(api)
    from vc.core.proxies import divmod_fact
    sz, vz = zint(size), zint(v)
    a = sz + vz
    api.ctx.assume(divmod_fact(a, sz))
    use(api, "U", sz, sz - 1, z3.IntVal(0), PYMOD(a, sz), PYDIV(a, sz))      # v = -1
    use(api, "U", sz, vz, z3.IntVal(1), PYMOD(a, sz), PYDIV(a, sz))          # 0 <= v < size
    use(api, "U", sz, z3.IntVal(0), z3.IntVal(2), PYMOD(a, sz), PYDIV(a, sz))  # v = size
