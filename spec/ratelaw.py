"""Spec functions of the deterministic rate law (written from the property text).

  reaction rate   rate(k, V, x, nu) = k * V * PROD_j (x_j / V)^nu_j          (SI)
  interface       Dij = (h_i + h_j) / (h_i/D_i + h_j/D_j)  or 0 if a coefficient is 0,  h = V^(1/3)
  exchange        kappa_{i->j} = Dij * s_ij / (d_ij * V_i);  on a grid s = h^2, d = h, equal volumes
All quantities are SI numbers (api.num / proxies).
"""


def ipow(x, n):
    r = 1
    for _ in range(n):
        r = r * x
    return r


def rate(k, V, xs, nus):
    r = k * V
    for x, nu in zip(xs, nus):
        r = r * ipow(x / V, nu)
    return r


def dij(api, Di, Dj, hi, hj):
    zero = api.or_(api.eq(Di, 0), api.eq(Dj, 0))
    if api.mode == "conc":
        if api.truth(zero):
            return 0
        return (hi + hj) / (hi / Di + hj / Dj)
    # symbolic: guard the division
    from vc.core.proxies import SReal, zreal
    import z3
    di, dj = zreal(Di), zreal(Dj)
    val = (zreal(hi) + zreal(hj)) / (zreal(hi) / di + zreal(hj) / dj)
    return SReal(z3.If(api._z(zero), z3.RealVal(0), val))


def kappa(api, Di, Dj, Vi, Vj, surface, distance):
    """rate constant of the exchange i -> j (per unit amount in i)"""
    hi, hj = api.root(3, Vi), api.root(3, Vj)
    return dij(api, Di, Dj, hi, hj) * surface / (distance * Vi)


def kappa_grid(api, Di, Dj, V):
    h = api.root(3, V)
    return dij(api, Di, Dj, h, h) * (h * h) / (h * V)
