"""Spec functions for quantities (written from the property text, not from units.py).

scale(sys, dim) = Π_k tbl_k(sys_k) ^ dim_k        SI value of one unit of `sys` at dimension `dim`
si(q)           = q.value · scale(q.units)         SI value of a quantity
Generic over the harness API: z3-backed proxies in symbolic mode, Fractions / floats
in concrete mode.
"""
from vc.core.api import KINDS


def scale(api, sys, dim):
    s = 1
    for k in KINDS:
        s = s * api.pw(api.tbl(k, sys[k]), dim[k])
    return s


def unit_scale(api, units):
    return scale(api, units.sys, units.dim)


def si(api, q):
    return api.num(q.value) * unit_scale(api, q.units)


def si_at(api, arr, k):
    """SI value of element k of a quantity array"""
    return api.num(api.arr_get(arr.value, k)) * unit_scale(api, arr.units)


def conv_factor(api, src, dst, dim):
    """factor that converts a number of dimension `dim` from system src to system dst"""
    f = 1
    for k in KINDS:
        f = f * api.pw(api.tbl(k, src[k]) / api.tbl(k, dst[k]), dim[k])
    return f


def dims(units):
    return tuple(units.dim[k] for k in KINDS)


def dims_equal(api, u1, u2):
    return api.and_(*[api.eq(u1.dim[k], u2.dim[k]) for k in KINDS])


def same_system(api, s1, s2):
    return api.and_(*[api.eq(s1[k], s2[k]) for k in KINDS])
