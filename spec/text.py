"""Text builder shared by the parser harnesses: token string in symbolic mode, python str in concrete mode."""

# ---------------------------------------------------------------------------
# building text in both modes
class Txt:
    """text builder: token string in symbolic mode, python str in concrete mode"""

    def __init__(self, api, known_symbols=()):
        self.api = api
        self.parts = []
        self.known_symbols = list(known_symbols)

    def lit(self, s):
        self.parts.append(("lit", s))
        return self

    def sym(self, e):
        self.parts.append(("sym", e))
        return self

    def int(self, n):
        self.parts.append(("int", n))
        return self

    def flt(self, x):
        self.parts.append(("flt", x))
        return self

    def ws(self, minlen, name):
        self.parts.append(("ws", (minlen, name)))
        return self

    def label(self, name):
        self.parts.append(("label", name))
        return self

    def build(self):
        api = self.api
        if api.mode == "conc":
            out = ""
            for k, v in self.parts:
                if k == "lit":
                    out += v
                elif k == "sym":
                    out += v
                elif k == "int":
                    out += str(v)
                elif k == "flt":
                    out += repr(float(v))
                elif k == "ws":
                    n = api.int(v[1], v[0], v[0] + 2)
                    out += " " * n
                elif k == "label":
                    out += ["Zq", "foo", "xyz", "QQ", "w"][api.int(v, 0, 4)]
            return out
        from vc.core import tokstr as T
        from vc.core.proxies import SEnum
        import z3
        atoms = []
        for k, v in self.parts:
            if k == "lit":
                atoms.append(T.Lit(v))
            elif k == "sym":
                atoms.append(T.Enum(v) if isinstance(v, SEnum) else T.Lit(v))
            elif k == "int":
                atoms.append(T.IntLit(v) if not isinstance(v, int) else T.Lit(str(v)))
            elif k == "flt":
                atoms.append(T.FloatLit(v))
            elif k == "ws":
                atoms.append(T.WS(v[0]))
            elif k == "label":
                # unknown symbol: >= 1 characters, none of them blank, digit, + - > . / or 'u'
                # (the u-for-micro rewriting cannot touch it), different from every table symbol
                from vc.core.tokparse import LABEL_EXCLUDED
                atoms.append(T.Label(z3.Int(v), excluded=set(LABEL_EXCLUDED) | {"u"},
                                     not_in=set(self.known_symbols)))
        return T.TokStr(atoms)


