"""C19  Reaction equations: stoichiometry, order and rate-constant dimensions.

Real code under contract (rdnetwork.py): Reaction.__init__/_fromstring/to_string/ssto/psto/
dsto/order/rorder/kf_units_dimensions/kr_units_dimensions/kf,kr setters/set_k/split/
equilibrium_constant, RDNetwork.__init__/_assert_validity, value_processing.
process_unitvar_input / assert_string_is_a_valid_label / get_value_in_env.

Equation grammar quantified over (token strings):
   equation := side '->' side ;  side := eps | term ('+' term){0,3}
   term     := BLANKS0 (INT BLANKS1)? LABEL BLANKS0
INT any integer 0.. (symbolic), BLANKS runs of blanks of any length, LABEL drawn from a
concrete alphabet with *every* aliasing pattern among the terms of a side (set partitions)
and across sides; every shape (term count 0..4, coefficient present/absent) is explored.
"""
from vc.core.runner import Case
from vc.core.api import KINDS
from spec import quant as Q
from spec.text import Txt
from props.C05 import mk_units, mk
from props.C06 import mk_system

META = {
    "level": "proof",
    "trusted_base": ["vc/pysym + token-string model of str", "z3 / cvc5"],
    "assumptions": [
        "labels are treated by the code as opaque text (only ==, hashing, blank/'+' tests): concrete label names "
        "A..E with every aliasing pattern stand for all labels",
        "coefficients are non-negative integers (the statement's quantifier); A5 int(str(n)) == n",
        "A1 for rate-constant values",
    ],
}

LABELS = ["A", "B", "C", "D"]
SPECIES = ["A", "B", "C", "D", "E"]     # E never occurs in an equation: zero column


def partitions(n):
    """restricted growth strings: all set partitions of n positions into <= len(LABELS) blocks"""
    out = []

    def rec(prefix, mx):
        if len(prefix) == n:
            out.append(tuple(prefix))
            return
        for v in range(min(mx + 1, len(LABELS) - 1) + 1):
            rec(prefix + [v], max(mx, v))
    rec([], -1)
    return out


SHAPES = []      # (labels indices tuple, coefficient-present tuple)
for _n in range(0, 5):
    for _p in partitions(_n):
        for _m in range(2 ** _n):
            SHAPES.append((_p, tuple(bool(_m >> i & 1) for i in range(_n))))


def build_side(api, t, pfx, shape, relabel=None):
    """appends the side to text builder t; returns {label: total coefficient}"""
    labs, has = shape
    tot = {}
    for i, (li, hc) in enumerate(zip(labs, has)):
        if i > 0:
            t.lit("+")
        lab = LABELS[li] if relabel is None else relabel[li]
        t.ws(0, "%sw%da" % (pfx, i))
        if hc:
            c = api.int("%sc%d" % (pfx, i), 0, 9)
            t.int(c).ws(1, "%sw%db" % (pfx, i))
        else:
            c = 1
        t.lit(lab)
        t.ws(0, "%sw%dc" % (pfx, i))
        tot[lab] = tot.get(lab, 0) + c
    if not labs:
        t.ws(0, pfx + "w")
    return tot


def sum_vals(d):
    s = 0
    for v in d.values():
        s = s + v
    return s


def check_sto(api, P, r, sub, prod):
    N = api.mod("rdnetwork")
    ss = api.call(lambda: r.ssto(SPECIES))
    ps = api.call(lambda: r.psto(SPECIES))
    ds = api.call(lambda: r.dsto(SPECIES))
    api.check(P + "/sto_calls_ok", ss.ok and ps.ok and ds.ok)
    if not (ss.ok and ps.ok and ds.ok):
        return
    for i, l in enumerate(SPECIES):
        api.check(P + "/ssto", api.eq(ss.value[i], sub.get(l, 0)))
        api.check(P + "/psto", api.eq(ps.value[i], prod.get(l, 0)))
        api.check(P + "/dsto", api.eq(ds.value[i], prod.get(l, 0) - sub.get(l, 0)))
        api.check(P + "/get_substrate", api.eq(r.get_substrate_stoichiometry(l), sub.get(l, 0)))
        api.check(P + "/get_product", api.eq(r.get_product_stoichiometry(l), prod.get(l, 0)))
    n, m = sum_vals(sub), sum_vals(prod)
    api.check(P + "/order", api.eq(r.order(), n))
    api.check(P + "/rorder", api.eq(r.rorder(), m))
    for f, cnt, nm in ((r.kf_units_dimensions, n, "kf"), (r.kr_units_dimensions, m, "kr")):
        d = f()
        api.check(P + "/%s_dim.space" % nm, api.eq(d["space"], 3 * cnt - 3))
        api.check(P + "/%s_dim.time" % nm, api.eq(d["time"], -1))
        api.check(P + "/%s_dim.quantity" % nm, api.eq(d["quantity"], 1 - cnt))


NCHUNK = 7


def parse_case(which, chunk):
    """`which` side runs over all shapes (this case: shapes k with k % NCHUNK == chunk); the other
    side is a fixed two-term side that shares labels"""
    cid = "parse/%s-side-all-shapes/%d" % (which, chunk)
    P = "C19/parse"
    mine = [sh for k, sh in enumerate(SHAPES) if k % NCHUNK == chunk]

    def run(api):
        N = api.mod("rdnetwork")
        k = api.choice("shape", len(mine))
        shape = mine[k]
        other = ((0, 2), (True, False))
        t = Txt(api)
        if which == "left":
            sub = build_side(api, t, "l", shape)
            t.lit("->")
            prod = build_side(api, t, "r", other)
        else:
            sub = build_side(api, t, "l", other)
            t.lit("->")
            prod = build_side(api, t, "r", shape)
        text = t.build()
        out = api.call(lambda: N.Reaction(text))
        api.check(P + "/accepted", out.ok, "raised %r" % (out.exc,))
        if not out.ok:
            return
        r = out.value
        check_sto(api, P, r, sub, prod)
        # print -> parse
        txt2 = api.call(lambda: r.to_string())
        api.check(P + "/to_string_ok", txt2.ok)
        if not txt2.ok:
            return
        r2 = api.call(lambda: N.Reaction(txt2.value))
        api.check(P + "/reparse_ok", r2.ok, "raised %r" % (r2.exc,))
        if r2.ok:
            check_sto(api, "C19/roundtrip", r2.value, sub, prod)

    return Case(cid, run, functions=["Reaction.__init__", "Reaction._fromstring", "Reaction.to_string",
                                     "Reaction.ssto", "Reaction.psto", "Reaction.dsto", "Reaction.order",
                                     "Reaction.rorder", "Reaction.kf_units_dimensions",
                                     "Reaction.kr_units_dimensions", "Reaction.get_substrate_stoichiometry",
                                     "Reaction.get_product_stoichiometry", "assert_string_is_a_valid_label"],
                max_paths=20000)


def malformed_case():
    cid = "parse/malformed"
    P = "C19/" + cid

    def run(api):
        N = api.mod("rdnetwork")
        k = api.choice("kind", 3)
        t = Txt(api)
        if k == 0:      # no arrow
            build_side(api, t, "l", ((0, 1), (True, False)))
        elif k == 1:    # two arrows
            build_side(api, t, "l", ((0,), (True,)))
            t.lit("->")
            build_side(api, t, "m", ((1,), (False,)))
            t.lit("->")
            build_side(api, t, "r", ((2,), (False,)))
        else:           # missing '+': three tokens in one term
            t.int(api.int("c", 0, 9)).ws(1, "w0").lit("A").ws(1, "w1").lit("B").lit("->").lit("C")
        out = api.call(lambda: N.Reaction(t.build()))
        api.check(P + "/raises", not out.ok)

    return Case(cid, run, functions=["Reaction._fromstring"])


def make_reaction(api, n_sub, n_prod, **kw):
    """reaction  n_sub A -> n_prod B  with symbolic coefficients, built through the real parser"""
    N = api.mod("rdnetwork")
    t = Txt(api).int(n_sub).ws(1, "wa").lit("A").lit("->").int(n_prod).ws(1, "wb").lit("B")
    return N.Reaction(t.build(), **kw)


def setter_case():
    cid = "constants/setter"
    P = "C19/" + cid

    def run(api):
        U = api.mod("units")
        n = api.int("n", 0, 8)
        m = api.int("m", 0, 8)
        us = mk_system(api, "rs")
        r = make_reaction(api, n, m, units_system=us)
        which = api.choice("which", 2)
        order = n if which == 0 else m
        form = api.choice("form", 2)
        if form == 0:
            v = api.real("kv")
            out = api.call(lambda: setattr(r, "kf" if which == 0 else "kr", v))
            api.check(P + "/number_accepted", out.ok, "raised %r" % (out.exc,))
            if not out.ok:
                return
            k = r.kf if which == 0 else r.kr
            api.check(P + "/number_value", api.eq(k.value, v))
            for kk in KINDS:
                api.check(P + "/number_sys." + kk, api.eq(k.units.sys[kk], us[kk]))
        else:
            q = mk(api, "q", "uv")
            out = api.call(lambda: setattr(r, "kf" if which == 0 else "kr", q))
            good = api.and_(api.eq(q.units.dim["space"], 3 * order - 3), api.eq(q.units.dim["time"], -1),
                            api.eq(q.units.dim["quantity"], 1 - order))
            if not out.ok:
                api.check(P + "/quantity_raises_only_if_wrong_dim", api.not_(good))
                return
            api.check(P + "/quantity_accepted_only_if_right_dim", good)
            k = r.kf if which == 0 else r.kr
            api.check(P + "/quantity_si", api.eq(Q.si(api, k), Q.si(api, q)))
        api.check(P + "/dim.space", api.eq(k.units.dim["space"], 3 * order - 3))
        api.check(P + "/dim.time", api.eq(k.units.dim["time"], -1))
        api.check(P + "/dim.quantity", api.eq(k.units.dim["quantity"], 1 - order))

    return Case(cid, run, functions=["Reaction.kf (setter)", "Reaction.kr (setter)", "Reaction.set_k",
                                     "process_unitvar_input", "UnitValue.__init__"])


def split_case():
    cid = "split"
    P = "C19/" + cid

    def run(api):
        n = api.int("n", 0, 8)
        m = api.int("m", 0, 8)
        us = mk_system(api, "rs")
        kf, kr = api.real("kf"), api.real("kr")
        r = make_reaction(api, n, m, kf=kf, kr=kr, units_system=us)
        out = api.call(lambda: r.split())
        api.check(P + "/ok", out.ok, "raised %r" % (out.exc,))
        if not out.ok:
            return
        f, b = out.value
        check_sto(api, P + "/fwd", f, {"A": n}, {"B": m})
        check_sto(api, P + "/rev", b, {"B": m}, {"A": n})
        api.check(P + "/fwd_kf", api.eq(Q.si(api, f.kf), Q.si(api, r.kf)))
        api.check(P + "/rev_kf", api.eq(Q.si(api, b.kf), Q.si(api, r.kr)))
        api.check(P + "/fwd_kr_zero", api.eq(f.kr.value, 0))
        api.check(P + "/rev_kr_zero", api.eq(b.kr.value, 0))
        for kk in KINDS:
            api.check(P + "/fwd_kf_dim." + kk, api.eq(f.kf.units.dim[kk], r.kf.units.dim[kk]))
            api.check(P + "/rev_kf_dim." + kk, api.eq(b.kf.units.dim[kk], r.kr.units.dim[kk]))

    return Case(cid, run, functions=["Reaction.split"])


def eqconst_mixed_case(dict_side):
    """one constant scalar, the other per-environment"""
    cid = "equilibrium_constant/mixed-%s-per-environment" % dict_side
    P = "C19/" + cid

    def run(api):
        n = api.int("n", 0, 8)
        m = api.int("m", 0, 8)
        us = mk_system(api, "rs")
        sc, a, d = api.real("k_scalar"), api.real("k_ea"), api.real("k_default")
        dct = {"ea": a, "default": d}
        if dict_side == "kr":
            r = make_reaction(api, n, m, kf=sc, kr=dct, units_system=us)
            exp = {"ea": (sc, a), "default": (sc, d)}
        else:
            r = make_reaction(api, n, m, kf=dct, kr=sc, units_system=us)
            exp = {"ea": (a, sc), "default": (d, sc)}
        out = api.call(lambda: r.equilibrium_constant())
        api.check(P + "/ok", out.ok, "raised %r" % (out.exc,))
        if not out.ok:
            return
        K = out.value
        api.check(P + "/is_dict", isinstance(K, dict))
        if not isinstance(K, dict):
            return
        api.check(P + "/keys", sorted(K.keys()) == sorted(exp.keys()))
        for e, (f_, r_) in exp.items():
            if e not in K:
                continue
            if K[e] is None:
                api.check(P + "/none_only_if_kr_zero", api.eq(r_, 0))
            else:
                api.check(P + "/none_if_kr_zero", api.not_(api.eq(r_, 0)))
                sc_f = Q.scale(api, us, r.kf_units_dimensions())
                sc_r = Q.scale(api, us, r.kr_units_dimensions())
                api.check(P + "/ratio", api.eq(Q.si(api, K[e]) * (api.num(r_) * sc_r), api.num(f_) * sc_f))

    return Case(cid, run, functions=["Reaction.equilibrium_constant", "get_value_in_env"])


def eqconst_case(per_env):
    cid = "equilibrium_constant/%s" % ("per-environment" if per_env else "scalar")
    P = "C19/" + cid

    def run(api):
        n = api.int("n", 0, 8)
        m = api.int("m", 0, 8)
        us = mk_system(api, "rs")
        if not per_env:
            kf, kr = api.real("kf"), api.real("kr")
            r = make_reaction(api, n, m, kf=kf, kr=kr, units_system=us)
            out = api.call(lambda: r.equilibrium_constant())
            api.check(P + "/ok", out.ok, "raised %r" % (out.exc,))
            if not out.ok:
                return
            K = out.value
            if K is None:
                api.check(P + "/none_only_if_kr_zero", api.eq(kr, 0))
                return
            api.check(P + "/none_if_kr_zero", api.not_(api.eq(kr, 0)))
            api.check(P + "/ratio", api.eq(Q.si(api, K) * Q.si(api, r.kr), Q.si(api, r.kf)))
            return
        a, b, c, d = api.real("kf_a"), api.real("kf_def"), api.real("kr_b"), api.real("kr_def")
        r = make_reaction(api, n, m, kf={"ea": a, "default": b}, kr={"eb": c, "default": d}, units_system=us)
        out = api.call(lambda: r.equilibrium_constant())
        api.check(P + "/ok", out.ok, "raised %r" % (out.exc,))
        if not out.ok:
            return
        K = out.value
        exp = {"ea": (a, d), "eb": (b, c), "default": (b, d)}
        api.check(P + "/keys", sorted(K.keys()) == sorted(exp.keys()))
        for e, (f_, r_) in exp.items():
            if e not in K:
                continue
            if K[e] is None:
                api.check(P + "/none_only_if_kr_zero", api.eq(r_, 0))
            else:
                api.check(P + "/none_if_kr_zero", api.not_(api.eq(r_, 0)))
                sc_f = Q.scale(api, us, r.kf_units_dimensions())
                sc_r = Q.scale(api, us, r.kr_units_dimensions())
                api.check(P + "/ratio", api.eq(Q.si(api, K[e]) * (api.num(r_) * sc_r), api.num(f_) * sc_f))

    return Case(cid, run, functions=["Reaction.equilibrium_constant", "get_value_in_env",
                                     "UnitValue.__truediv__"])


def network_case():
    cid = "network/validity"
    P = "C19/" + cid
    names = ["A", "B", "C"]

    def run(api):
        N = api.mod("rdnetwork")
        # species labels s0,s1 ; reaction over labels x -> y ; reaction labels l0,l1 (maybe None)
        s = [names[api.choice("s%d" % i, 3)] for i in range(2)]
        x = names[api.choice("x", 3)]
        y = names[api.choice("y", 3)]
        rl = [[None, "r", "q"][api.choice("l%d" % i, 3)] for i in range(2)]
        sp = [N.Species(l) for l in s]
        rs = [N.Reaction("%s -> %s" % (x, y), label=rl[0]), N.Reaction("%s -> " % s[0], label=rl[1])]
        out = api.call(lambda: N.RDNetwork(species=sp, reactions=rs))
        bad = (s[0] == s[1]) or (x not in s) or (y not in s) or (rl[0] is not None and rl[0] == rl[1])
        api.check(P + "/raises_iff_invalid", out.ok == (not bad),
                  "species %r reaction %s->%s labels %r" % (s, x, y, rl))

    return Case(cid, run, functions=["RDNetwork.__init__", "RDNetwork._assert_validity"], max_paths=2000)


def label_alphabet_case(api):
    """a permitted label survives printing and parsing: labels containing any whitespace character or '+' are refused, for
    species and for reaction labels (finite alphabet)"""
    import string
    N = api.mod("rdnetwork")
    P = "C19/label-alphabet"
    for ch in list(string.whitespace) + ["+"]:
        for lab in ("A%sb" % ch, "%sA" % ch, "A%s" % ch):
            sp = api.call(lambda: N.Species(lab))
            api.check(P + "/species-label-with-%r-refused" % ch, not sp.ok, "label %r accepted" % lab)
            rl = api.call(lambda: N.Reaction("A -> B", label=lab))
            api.check(P + "/reaction-label-with-%r-refused" % ch, not rl.ok, "label %r accepted" % lab)
    for lab in ("A", "Ab_1", "x.y", "α", "A-", "a>b"):
        sp = api.call(lambda: N.Species(lab))
        api.check(P + "/plain-label-accepted/%s" % lab, sp.ok)
        if sp.ok:
            r = api.call(lambda: N.Reaction("2 %s -> " % lab))
            api.check(P + "/accepted-label-parses-in-an-equation/%s" % lab, r.ok and r.value.get_substrate_stoichiometry(lab) == 2)


CASES = [Case("label-alphabet", label_alphabet_case, functions=["assert_string_is_a_valid_label", "Species.label", "Reaction.label"],
              sym=False, bounded="6 whitespace characters and '+', 3 positions; 6 permitted labels")] + \
        [parse_case(w, c) for w in ("left", "right") for c in range(NCHUNK)] + [malformed_case(), setter_case(), split_case(),
         eqconst_case(False), eqconst_case(True), eqconst_mixed_case("kr"), eqconst_mixed_case("kf"),
         network_case()]
