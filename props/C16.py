"""C16  Coarse-graining conserves matter and geometry; un-coarse-graining inverts it.

Under contract (coarsegrain.py): check_index_map_validity, grid_to_graph, coarsegrain_grid, coarsegrain_system,
uncoarsegrain_trajectory_data / uncoarsegrain_trajectory.

The control flow of these functions is driven by the index map (lists of nodes indexed by map entries, membership
tests, de-duplication of edges), which the generic-iteration rules of the path engine cannot abstract.  The check is
therefore exhaustive over the maps of small grids and symbolic in everything else:
   for every grid shape of the list below, every environment pattern, every chemostat pattern and EVERY index map in
   {-1, 0, .., n-1}^n (valid or not), with symbolic cell volume, state, trajectory data and unit systems,
the real code is executed by the path engine and its result is compared with an independent statement of the property
(groups, shared faces and centroids computed from coordinates).  The bound on shapes is stated in the evidence; the
quantification over volumes / states / data / units is unbounded.
"""
import itertools
from fractions import Fraction
from vc.core.runner import Case
from spec import quant as Q
from spec import model as M

META = {
    "level": "other",
    "explanation": "deductive over values, bounded in shape: for each listed grid shape every index map in {-1..n-1}^n is one path "
                   "of the path engine running the real coarsegrain.py with symbolic cell volume, amounts, data and unit systems; the "
                   "obligations of each path are discharged by SMT for all values. Counted as bounded stand-ins (the shape bound), "
                   "never as unbounded proof.",
    "trusted_base": ["vc/pysym path engine", "z3 / cvc5"],
    "assumptions": ["bounded in the grid shape (and hence in the index map): shapes listed in the case names, all maps over them; "
                    "unbounded (symbolic) in cell volume, amounts, chemostat-independent data and unit systems",
                    "A1 (reals); the edge length volume^(1/3) is a ghost root with root^3 = volume"],
}

SHAPES_QUICK = [(1, 1, 1), (2, 1, 1), (3, 1, 1), (1, 2, 1), (2, 2, 1), (1, 1, 3)]
SHAPES_THOROUGH = [(4, 1, 1), (2, 1, 2), (1, 2, 2)]
S_ = 2


def coords(shape):
    w, h, d = shape
    return [(x, y, z) for z in range(d) for y in range(h) for x in range(w)]


def env_patterns(n):
    pats = [[0] * n, [k % 2 for k in range(n)], [0 if k < (n + 1) // 2 else 1 for k in range(n)]]
    out = []
    for p in pats:
        if p not in out:
            out.append(p)
    return out


def chem_patterns(n):
    a = [0] * (S_ * n)
    b = [1 if (k % 3 == 0) else 0 for k in range(S_ * n)]
    return [a, b] if n > 0 else [a]


def is_valid(im, env):
    if min(im) < -1 or max(im) < 0:
        return False
    for g in range(max(im) + 1):
        if g not in im:
            return False
    for g in range(max(im) + 1):
        if len(set(env[i] for i in range(len(im)) if im[i] == g)) > 1:
            return False
    return True


def expected_graph(shape, im):
    """groups, shared faces and centroids straight from the coordinates"""
    cs = coords(shape)
    n = len(cs)
    G = max(im) + 1
    members = [[i for i in range(n) if im[i] == g] for g in range(G)]
    faces = {}
    for a in range(n):
        for b in range(a + 1, n):
            if sum(abs(cs[a][k] - cs[b][k]) for k in range(3)) == 1 and im[a] != -1 and im[b] != -1 and im[a] != im[b]:
                key = (min(im[a], im[b]), max(im[a], im[b]))
                faces[key] = faces.get(key, 0) + 1
    cen = [tuple(Fraction(sum(cs[i][k] for i in m), len(m)) for k in range(3)) for m in members]
    return members, faces, cen


def all_maps(n, groups=None):
    return list(itertools.product(range(-1, n if groups is None else groups), repeat=n))


def _pick_map(api, K):
    """index of the map: one path per value (two-level choice, at most 50 values per level)"""
    if K <= 50:
        return api.choice("map", K)
    hi = api.choice("map_hi", (K + 49) // 50)
    lo = api.choice("map_lo", min(50, K - 50 * hi))
    return 50 * hi + lo


def mk_system(api, shape, env, chem):
    G = api.mod("rdgridspace")
    R = api.mod("rdsystem")
    N = api.mod("rdnetwork")
    w, h, d = shape
    n = w * h * d
    gus = M.mk_system(api, "gus")
    sus = M.mk_system(api, "sus")
    vol = api.real("vol", positive=True)
    grid = G.RDGridSpace(w=w, h=h, d=d, cell_env=list(env), cell_vol=vol, units_system=gus)
    net = N.RDNetwork([N.Species("A"), N.Species("B")], [], environments=["e0", "e1"])
    st = api.array("st", S_ * n)
    U = api.mod("units")
    stus = M.mk_system(api, "stus")          # the state is stated in its own units
    system = R.RDSystem(net, grid, state=U.UnitArray(st, U.Units(stus, U.quantity_units_dimensions())), chemostats=list(chem),
                        units_system=sus)
    return system, grid, net, st, vol, gus, sus


def cg_case(shape, ep, cp, thorough=False, groups=None):
    n = shape[0] * shape[1] * shape[2]
    env = env_patterns(n)[ep]
    chem = chem_patterns(n)[cp]
    maps = all_maps(n, groups)
    cid = "coarsegrain/%dx%dx%d/env%d/chem%d" % (shape + (ep, cp)) + ("" if groups is None else "/at-most-%d-groups" % groups)
    P = "C16/coarsegrain"

    def run(api):
        CG = api.mod("coarsegrain")
        system, grid, net, st, vol, gus, sus = mk_system(api, shape, env, chem)
        im = list(maps[_pick_map(api, len(maps))])
        valid = is_valid(im, env)
        out = api.call(lambda: CG.coarsegrain_system(system, list(im)))
        api.check(P + "/accepted-iff-valid-by-the-documented-rules", out.ok == valid,
                  "map %r env %r: valid=%s, %s" % (im, env, valid, "accepted" if out.ok else "raised %r" % (out.exc,)))
        if not (out.ok and valid):
            return
        cg = out.value
        sp = cg.space
        members, faces, cen = expected_graph(shape, im)
        Gn = len(members)
        api.check(P + "/number-of-groups", len(sp.nodes) == Gn and sp.size() == Gn)
        edge_si3 = M.si_number(api, vol, gus, M.dims_of("volume"))          # SI volume of one cell
        for g in range(Gn):
            node = sp.nodes[g]
            api.check(P + "/group-volume = members x cell volume", api.eq(Q.si(api, node.volume), len(members[g]) * edge_si3))
            api.check(P + "/group-environment", api.eq(node.environment, env[members[g][0]]))
        # edges: exactly the pairs of groups sharing a face, once each, no self loop
        got = {}
        dup = False
        for e in sp.edges:
            key = (int(e.i), int(e.j))
            dup = dup or key in got or (key[1], key[0]) in got or key[0] == key[1]
            got[key] = e
        api.check(P + "/edges: no self-loop, no duplicate", not dup)
        api.check(P + "/edges: exactly the groups sharing a face", set((min(k), max(k)) for k in got) == set(faces))
        L = api.root(3, api.num(vol)) * Q.scale(api, gus, M.dims_of("distance"))             # SI edge length
        for key, e in got.items():
            k = (min(key), max(key))
            if k not in faces:
                continue
            api.check(P + "/contact-surface = shared faces x face area", api.eq(Q.si(api, e.surface), faces[k] * L * L))
            d2 = sum((cen[k[0]][a] - cen[k[1]][a]) ** 2 for a in range(3))
            ds = Q.si(api, e.distance)
            api.check(P + "/distance = distance between member centroids", api.and_(api.le(0, ds), api.eq(ds * ds, d2 * L * L)))
        # matter: each species' amount per group, chemostat flags (any member)
        n_ = n
        for s in range(S_):
            for g in range(Gn):
                tot = sum((Q.si_at(api, system.state, s * n_ + i) for i in members[g]), 0)
                api.check(P + "/group-amount = sum of member amounts (SI)", api.eq(Q.si_at(api, cg.state, s * Gn + g), tot))
                flag = 1 if any(chem[s * n_ + i] for i in members[g]) else 0
                api.check(P + "/group-chemostated-iff-any-member", api.eq(cg.chemostats[s * Gn + g], flag))
        api.check(P + "/state-and-flag-lengths", len(cg.state) == S_ * Gn and len(cg.chemostats) == S_ * Gn)

    return Case(cid, run, functions=["check_index_map_validity", "grid_to_graph", "coarsegrain_grid", "coarsegrain_system"],
                bounded="grid %dx%dx%d: all %d index maps in {-1..%d}^%d; volume, state and unit systems symbolic" %
                        (shape + (len(maps), (n if groups is None else groups) - 1, n)),
                max_paths=len(maps) * 4 + 100, thorough_only=thorough)


def uncg_case(shape, thorough=False):
    n = shape[0] * shape[1] * shape[2]
    env = [0] * n
    maps = [m for m in all_maps(n) if is_valid(m, env)]
    cid = "uncoarsegrain/%dx%dx%d" % shape
    P = "C16/uncoarsegrain"
    NS = 2

    def run(api):
        CG = api.mod("coarsegrain")
        O = api.mod("rdoutput")
        U = api.mod("units")
        system, grid, net, st, vol, gus, sus = mk_system(api, shape, env, [0] * (S_ * n))
        im = list(maps[_pick_map(api, len(maps))])
        cgsys = CG.coarsegrain_system(system, list(im))
        members, faces, cen = expected_graph(shape, im)
        Gn = len(members)
        dus, tus = M.mk_system(api, "dus"), M.mk_system(api, "tus")
        data = api.array("data", NS * S_ * Gn)
        times = api.array("times", NS)
        tr = O.RDTrajectory(data=U.UnitArray(data, U.Units(dus, U.quantity_units_dimensions())),
                            t_sample=U.UnitArray(times, U.Units(tus, U.time_units_dimensions())), system=cgsys)
        out = CG.uncoarsegrain_trajectory(tr, system, list(im))
        api.check(P + "/length", len(out.data) == NS * S_ * n)
        api.check(P + "/system-and-times-kept", out.system.space.size() == n and len(out.t) == NS and
                  all(api.eq(api.arr_get(out.t.value, k), api.arr_get(times, k)) for k in range(NS)))
        for k in ("space", "time", "quantity"):
            api.check(P + "/units." + k, api.eq(out.data.units.sys[k], dus[k]))
        for ns in range(NS):
            for s in range(S_):
                for i in range(n):
                    v = api.arr_get(out.data.value, ns * S_ * n + s * n + i)
                    if im[i] == -1:
                        api.check(P + "/dropped-cells-are-zero", api.eq(v, 0))
                    else:
                        g = im[i]
                        api.check(P + "/even-share-of-the-group-value",
                                  api.eq(v * len(members[g]), api.arr_get(data, ns * S_ * Gn + s * Gn + g)))

    return Case(cid, run, functions=["uncoarsegrain_trajectory_data", "uncoarsegrain_trajectory"],
                bounded="grid %dx%dx%d: all %d valid index maps; data and unit systems symbolic" % (shape + (len(maps),)),
                max_paths=len(maps) * 2 + 50, thorough_only=thorough)


def identity_case(api):
    """simulating with the identity map reproduces the plain simulation (deterministic engine, concrete)"""
    import numpy as np
    import strengths as st
    for (w, h, d) in ((3, 1, 1), (2, 2, 1), (2, 2, 2)):
        n = w * h * d
        net = st.RDNetwork([st.Species("A", density=3.0, D=1.5), st.Species("B", density={"e0": 1.0, "e1": 0.0}, D=0.4)],
                           [st.Reaction("A -> B", kf=0.3, kr=0.1)], environments=["e0", "e1"])
        grid = st.RDGridSpace(w=w, h=h, d=d, cell_env=[k % 2 for k in range(n)], cell_vol=2.0)
        system = st.RDSystem(net, grid)
        script = st.RDScript(system, t_sample=[0, 0.01, 0.02, 0.05], time_step=0.001)
        a = st.simulate_script(script, st.engine_collection.euler_engine())
        b = st.simulate_script(script, st.engine_collection.euler_engine(), cgmap=list(range(n)))
        da, db = np.array(a.data.value, dtype=float), np.array(b.data.value, dtype=float)
        ok = da.shape == db.shape and bool(np.all(np.abs(da - db) <= 1e-9 * (1 + np.abs(da))))
        api.check("C16/identity-map/%dx%dx%d: same trajectory as the plain simulation" % (w, h, d), ok,
                  "max difference %r" % (float(np.max(np.abs(da - db))) if da.shape == db.shape else "shape",))


CASES = []
for _sh in SHAPES_QUICK + SHAPES_THOROUGH:
    _n = _sh[0] * _sh[1] * _sh[2]
    _th = _sh in SHAPES_THOROUGH
    for _ep in range(len(env_patterns(_n))):
        for _cp in range(len(chem_patterns(_n))):
            if _th and (_ep, _cp) != (1, 1):
                continue
            CASES.append(cg_case(_sh, _ep, _cp, thorough=_th))
    CASES.append(uncg_case(_sh, thorough=_th))
# non-square 2-D grids (w != h, both > 1): all maps with at most two groups
CASES.append(cg_case((3, 2, 1), 0, 0, groups=2))
CASES.append(cg_case((2, 3, 1), 1, 1, groups=2))
CASES.append(Case("identity-map/real-engine", identity_case, functions=["simulate_script(cgmap=identity)", "coarsegrain_system",
                  "uncoarsegrain_trajectory"], sym=False, bounded="3 grids, deterministic engine, 50 steps, relative tolerance 1e-9"))
# "simulating with the identity map reproduces the plain simulation" in every units system: the coarse-grained graph reaches
# the native engine through the graph seam (volumes, edge surfaces and distances converted to the script's units): C04's
# graph marshalling cases are part of this check
from props import C04 as _C04
CASES.append(_C04.marshal_case("graph", False))
CASES.append(_C04.marshal_case("graph", True))
