"""C08  A trajectory is a pure function of script, engine kind and seed.

Determinism and independence of history are frame properties; they are decided by an effect analysis carried along
the symbolic interpretation of the real C++ (vc/cppsym), plus small functional contracts:
  step/<class>      Iterate (with every helper inlined) reads and writes nothing but fields of its own object and its
                    locals: no global, no function-local static, no clock; its random draws all come from the
                    object's own generator field `rng`; the deterministic engine draws nothing (seed independence)
  init/<class>      Init seeds that generator from its seed argument and from nothing else, and leaves no scalar field
                    unset (a fresh object is allocated by every set-up: nothing carries over from an earlier simulation)
  api/iterate|iterate_n|run  change the simulation only through calls of Iterate on the live object and return the
                    result of the last call (true when none was made); they stop calling once Iterate returned false;
                    the clock read by run only decides when to stop
  (with C09: a completed simulation's Iterate returns false and changes nothing) => lemma L-schedule: every way of
  driving the loop to completion ends in the same state, hence the same records
Python side (vc/pysym): RDScript.rng_seed keeps the integer it was given, or draws one and keeps it; copy() keeps it;
simulate_script drives setup / run until false / get_output / finalize in that order.  That the seed and the stored
script reach the engine and the trajectory is C04's seam obligation.
"""
from vc.core.runner import Case
try:
    import z3
    from vc.cppsym import contracts as K
    from vc.cppsym.interp import Frame, Vec, Vec2, Ptr, Obj, ObjPtr, Opaque, Undef
except ImportError:
    z3 = None
    from vc.cppsym import names as K
from props import C11

META = {
    "level": "proof",
    "trusted_base": ["clang AST + vc/cppsym (names that are neither locals, fields nor the engine's globals are rejected as "
                     "unsupported, so an undeclared source of state cannot be overlooked)", "z3"],
    "assumptions": ["A2/A7: std::mt19937 and the distributions are deterministic functions of the generator state; the same "
                    "binary computes the same floating-point results (bit-identity of doubles is not modelled)",
                    "L-schedule (composition of a deterministic step that is idempotent once complete) is proved in Lean "
                    "(lemmas/Schedule.lean, checked on every run); that the C++ step is such a function is the effect analysis",
                    "single-threaded use; one engine object at a time (two live LibRDEngine objects share the native state: "
                    "known finding of C10)"],
}

CLASSES = ["Euler3D", "EulerGraph", "TauLeap3D", "TauLeapGraph", "Gillespie3D", "GillespieGraph"]
# scalar fields that Init leaves unset today; the step obligations below are run with exactly these fields undefined, so a
# read of one of them before it is written is reported as read-of-uninitialised
UNSET_AFTER_INIT = {"Gillespie3D": {"a0": "real"}, "GillespieGraph": {"a0": "real", "n_edges": "int"},
                    "EulerGraph": {"n_edges": "int"}, "TauLeapGraph": {"n_edges": "int"}}
ALLOWED = {"Euler": set(), "TauLeap": {"poisson"}, "Gillespie": {"uniform", "dist"}}


def step_case(cls):
    P = "C08/%s::Iterate" % cls

    def run(api):
        prog = C11.program()
        I = K.make_interp(prog, api.ctx, "C08", loop_inv=K.LOOP_INV)
        I.flag_statics = True
        o = K.valid_object(I, cls)
        K.assume_content_invariants(I, o)
        for nm, kd in UNSET_AFTER_INIT.get(cls, {}).items():
            o.fields[nm] = Undef(kd)
        fn, _ = prog.method(cls, "Iterate")
        I.call(fn, o, [], fn, Frame("top"))
        kind = [k for k in ALLOWED if cls.startswith(k)][0]
        ext = set(I.effects["externals"])
        api.check(P + "/no-clock-no-static-no-foreign-source", not [e for e in ext if e == "clock" or e.startswith("static-local")])
        api.check(P + "/draws-only-of-the-kinds-of-this-engine (%s)" % (sorted(ALLOWED[kind]) or "none"), ext <= ALLOWED[kind])
        api.check(P + "/every-draw-uses-the-object's-own-generator", all(g == ("field", "rng") for g in I.generators))
        gl = [x for x in (I.effects["reads"] | I.effects["writes"]) if x[0] == "g"]
        api.check(P + "/no-global-read-or-written", not gl)
        if kind == "Euler":
            api.check(P + "/deterministic-engine-never-touches-the-generator",
                      ("f", "rng") not in I.effects["reads"] and ("f", "uiud") not in I.effects["reads"] and not I.generators)

    return Case("step/%s" % cls, run, functions=["%s::Iterate (+ inlined callees)" % cls], conc=False, max_paths=4000)


def init_case(cls):
    P = "C08/%s::Init" % cls

    def run(api):
        prog = C11.program()
        I = K.make_interp(prog, api.ctx, "C08", loop_inv=K.LOOP_INV)
        o = I.new_object(cls)
        args, info = (K.abi_args_grid if K.is_grid(cls) else K.abi_args_graph)(I)
        seed = args[-1]
        fn, _ = prog.method(cls, "Init")
        I.call(fn, o, args, fn, Frame("top"))
        g = o.fields.get("rng")
        ok = isinstance(g, Opaque) and g.tag == "rng" and len(g.args) == 1 and z3.is_expr(g.args[0]) and z3.eq(z3.simplify(g.args[0] - seed), z3.IntVal(0))
        api.check(P + "/generator-seeded-with-the-seed-argument", bool(ok))
        unset = sorted(nm for nm, v in o.fields.items() if isinstance(v, Undef) and nm not in UNSET_AFTER_INIT.get(cls, {}))
        api.check(P + "/no-scalar-field-left-unset-except-those-the-step-writes-before-reading: %s" % unset, not unset)
        gl = [x for x in (I.effects["reads"] | I.effects["writes"]) if x[0] == "g"]
        api.check(P + "/no-global-read-or-written", not gl)
        api.check(P + "/no-clock-no-static", not [e for e in I.effects["externals"] if e == "clock" or e.startswith("static-local")])

    return Case("init/%s" % cls, run, functions=["%s::Init (+ inlined callees)" % cls], conc=False, max_paths=4000)


def api_case(fname, cls):
    P = "C08/%s[%s]" % (fname, cls)

    def run(api):
        prog = C11.program()
        c = api.ctx
        inv0 = dict(K.LOOP_INV)
        I = K.make_interp(prog, c, "C08", loop_inv=inv0)
        o = C11.setup_globals(I, cls, freed=False)
        results = []

        def st_iterate(I_, this, args, fr, node):
            api.check(P + "/Iterate-called-on-the-live-object", this is o)
            if fname == "engineexport_iterate_n":
                i = I_.local_by_name(fr, "i")
                # a counted loop (i = 0; i < n; i++) whose body makes one call: at most n calls, none for n <= 0
                api.check(P + "/loop-is-counted-from-0-with-step-1", I_.loops_seen.get((fname, 1)) == "counted")
                c.oblige(P + "/call-number-below-n_iterations", z3.And(i >= 0, i < args_n[0]))
            r = I_.fresh("iterate_result", "bool")
            results.append(r)
            return r
        I.method_stubs = {"Iterate": st_iterate}

        def inv(I_, fr, stage):
            u = I_.local_by_name(fr, "unfinished")
            return [u]          # the loop is only continued after a call that returned true
        inv0[(fname, 1)] = inv
        fn = prog.functions[fname][0]
        args = []
        args_n = [None]
        if fname == "engineexport_iterate_n":
            args = [K._int(I, "n_iterations")]
            args_n[0] = args[0]
        elif fname == "engineexport_run":
            args = [K._int(I, "breathe_dt")]
        ret = I.call(fn, None, args, fn, Frame("top"))
        retb = I.to_bool(ret)
        if results:
            api.check(P + "/at-most-one-call-per-loop-iteration", len(results) == 1)
            c.oblige(P + "/returns-the-result-of-the-last-call", retb == results[-1])
        else:
            c.oblige(P + "/returns-true-when-no-call-was-made-or-the-last-one-returned-true", retb)
        w = [x for x in I.effects["writes"] if x[0] in ("g", "f")]
        api.check(P + "/writes-nothing-itself: %s" % sorted(w), not w)
        ext = set(I.effects["externals"])
        api.check(P + "/clock-only-in-run", ext <= ({"clock"} if fname == "engineexport_run" else set()))

    return Case("api/%s/%s" % (fname.replace("engineexport_", ""), cls), run, functions=[fname], conc=False)


def seed_case(prop="C08"):
    P = "%s/RDScript.rng_seed" % prop

    def run(api):
        from props.C04 import mk_script
        script, info = mk_script(api, "grid")
        api.check(P + "/given-seed-is-kept", api.eq(script.rng_seed, info["seed"]))
        s2 = api.int("seed2", 0, 2**31 - 1)
        script.rng_seed = s2
        api.check(P + "/setter-stores-the-given-integer", api.eq(script.rng_seed, s2))
        script.rng_seed = None
        drawn = script.rng_seed
        api.check(P + "/drawn-seed-is-an-integer-in-range-and-is-kept",
                  type(drawn).__name__ in ("int", "vint") and 0 <= int(drawn) < 2**32 and script.rng_seed == drawn and script.rng_seed == drawn)

    return Case("python/rng_seed", run, functions=["RDScript.rng_seed (getter, setter)"])


def driver_case():
    P = "C08/simulate_script"

    def run(api):
        SM = api.mod("simulate")
        for k in range(0, 4):
            log = []
            out = object()

            class Mock:
                def __init__(self):
                    self.left = k

                def setup(self, script):
                    log.append(("setup", script))
                    return 0

                def run(self, ms):
                    log.append("run")
                    self.left -= 1
                    return self.left >= 0

                def get_progress(self):
                    return 0.0

                def get_option(self):
                    return "mock"

                def get_output(self):
                    log.append("get_output")
                    return out

                def finalize(self):
                    log.append("finalize")
            script = object()
            r = SM.simulate_script(script, Mock())
            api.check(P + "/setup-then-run-until-false-then-output-then-finalize (k=%d)" % k,
                      log == [("setup", script)] + ["run"] * (k + 1) + ["get_output", "finalize"])
            api.check(P + "/returns-the-engine-output (k=%d)" % k, r is out)

    return Case("python/simulate_script-drives-to-completion", run, functions=["simulate_script (cgmap None)"],
                bounded="mock engine whose run() returns true k = 0..3 times")


from vc.core.leanstep import lean_step as _lean_step




def no_static_case():
    """frame of the whole engine: no function of the engine sources (every class method and free function clang reports for
    engine.cpp and the headers it includes, the set-up helpers and GenerateStochasticDistribution included) declares a local
    variable with static storage that is not const - such a variable outlives the simulation, so a later run in the same process would
    depend on the earlier ones (a std:: distribution object kept static keeps its cached deviate)"""
    P = "C08/engine"

    def run(api):
        prog = C11.program()
        fns = []
        for nm, nodes in prog.functions.items():
            fns += [(nm, n) for n in nodes]
        for cn, c in prog.classes.items():
            fns += [("%s::%s" % (cn, mn), m) for mn, m in c["methods"].items()]
        api.check(P + "/functions-scanned", len(fns) >= 20, "only %d function bodies found" % len(fns))
        found = []

        def walk(n, owner):
            if not isinstance(n, dict):
                return
            if n.get("kind") == "VarDecl" and n.get("storageClass") == "static":
                qt = (n.get("type") or {}).get("qualType", "")
                # a const-qualified static holds no state that a run could leave behind (a constant table): not reported
                if not qt.startswith("const "):
                    found.append("%s: static %s (%s)" % (owner, n.get("name"), qt))
            for ch in n.get("inner", []) or []:
                walk(ch, owner)
        for nm, n in fns:
            walk(n, nm)
        api.check(P + "/no-function-local-static-in-any-engine-function", not found, "; ".join(sorted(set(found))[:5]))

    return Case("engine/no-static-locals", run, functions=["every function of the engine sources (syntactic frame condition)"],
                sym=False)


EXTRA = [_lean_step("Schedule.lean", "C08", ["after_end", "compose_true", "unique_end"])]
CASES = [seed_case(), driver_case()]
# the seam: the seed and a copy of the script reach the engine, and set-up leaves the caller's script as it was (C04's cases)
from props import C04 as _C04
for _sp in ("grid", "graph"):
    for _rm in (False, True):
        CASES.append(_C04.marshal_case(_sp, _rm))
CASES.append(no_static_case())
if z3 is not None:
    for _c in CLASSES:
        CASES.append(step_case(_c))
        CASES.append(init_case(_c))
    for _c in ("Euler3D", "GillespieGraph"):
        for _f in ("engineexport_iterate", "engineexport_iterate_n", "engineexport_run"):
            CASES.append(api_case(_f, _c))
    # the deterministic engine's initial state does not depend on the seed: 'auto' and 'none' hand the state over unchanged
    from props import C14 as _C14
    for _sp in ("grid", "graph"):
        CASES += [_C14.dispatch_case(_sp, "auto", "euler"), _C14.dispatch_case(_sp, "none", "euler")]
    for _c in ("EulerGraph", "TauLeap3D", "TauLeapGraph", "Gillespie3D"):       # thorough tier: the remaining classes
        for _f in ("engineexport_iterate", "engineexport_iterate_n", "engineexport_run"):
            _k = api_case(_f, _c)
            _k.thorough_only = True
            CASES.append(_k)
