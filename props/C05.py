"""C05  Arithmetic on quantities is arithmetic on their SI values, or an error.

Contracts (one per operator x operand pairing), checked on the real methods of
units.py (UnitValue / UnitArray operator methods, _sum/_product/_modulo/_rmodulo,
invert, convert, convert_unitvalue, convert_value, compute_conversion_factor,
Units.multiply/invert/raiseto, _neg, _inv):

  ensures.dim     dim(r) = dimension algebra of the operands
  ensures.si      si(r) = op(si(a), si(b))   (arrays: at every index, Skolem point k)
  ensures.len     len(r) = len(array operand)
  raises_iff      the call raises  <=>  dimensions differ (+ - % and ordering
                  comparisons) / array lengths differ / resulting exponent not integer
Each operand has its own symbolic unit system (11 x 10 x 10) and symbolic integer
exponent vector; arrays have symbolic length.
"""
from vc.core.runner import Case
from vc.core.api import KINDS
from spec import quant as Q

DB = 12    # |exponent| bound of the inputs (any bound works; the proof does not use it)

META = {
    "level": "proof",
    "trusted_base": [
        "vc/pysym (CPython executing the real units.py on z3-backed proxies; shims numpy.array/zeros)",
        "z3 4.x/5.x, cvc5 as second opinion",
        "power laws on positive reals applied syntactically by proxies.pw_term (L5)",
    ],
    "assumptions": [
        "A1 float = mathematical real, int = mathematical integer",
        "A-fmod python float modulo is positively homogeneous: fmod(l*a, l*b) = l*fmod(a,b), l>0 "
        "(instances assumed where % is specified)",
        "the conversion tables are any positive tables (their SI values are C06.b)",
        "operand magnitudes finite and non-zero (quantifier of the property)",
    ],
}


def mk_units(api, pfx):
    U = api.mod("units")
    us = U.UnitsSystem(space=api.enum(pfx + "_sp", "space"), time=api.enum(pfx + "_ti", "time"),
                       quantity=api.enum(pfx + "_qu", "quantity"))
    dim = U.UnitsDimensions(api.int(pfx + "_ds", -DB, DB, draw=(-3, 3)), api.int(pfx + "_dt", -DB, DB, draw=(-3, 3)),
                            api.int(pfx + "_dq", -DB, DB, draw=(-2, 2)))
    return U.Units(us, dim)


def mk(api, pfx, kind, positive=False):
    U = api.mod("units")
    if kind == "num":
        return api.real(pfx + "_c", nonzero=True, positive=positive)
    if kind == "uv":
        return U.UnitValue(api.real(pfx + "_v", nonzero=True, positive=positive), mk_units(api, pfx))
    n = api.length(pfx + "_n", 0, 4)
    return U.UnitArray(api.array(pfx + "_a", n, nonzero=True), mk_units(api, pfx))


def kind_of(api, x):
    U = api.mod("units")
    if type(x) == U.UnitValue:
        return "uv"
    if type(x) == U.UnitArray:
        return "ua"
    return "other"


PY = {
    "add": lambda a, b: a + b, "sub": lambda a, b: a - b, "mul": lambda a, b: a * b,
    "div": lambda a, b: a / b, "mod": lambda a, b: a % b,
    "lt": lambda a, b: a < b, "le": lambda a, b: a <= b, "gt": lambda a, b: a > b,
    "ge": lambda a, b: a >= b, "eq": lambda a, b: a == b, "ne": lambda a, b: a != b,
}


def binop_case(op, lt, rt):
    cid = "%s/%s-%s" % (op, lt, rt)
    P = "C05/" + cid

    def run(api):
        a = mk(api, "a", lt)
        b = mk(api, "b", rt)
        out = api.call(lambda: PY[op](a, b))
        quant = [x for x, k in ((a, lt), (b, rt)) if k != "num"]
        both = len(quant) == 2
        # ---- when must it raise?
        reasons = []
        if op in ("add", "sub", "mod") and both:
            reasons.append(api.not_(Q.dims_equal(api, a.units, b.units)))
        if lt == "ua" and rt == "ua":
            reasons.append(api.not_(api.eq(api.arr_len(a.value), api.arr_len(b.value))))
        must_raise = api.or_(*reasons) if reasons else False
        if not out.ok:
            api.check(P + "/raises_only_if", must_raise, "raised %s" % type(out.exc).__name__)
            return
        api.check(P + "/raises_if", api.not_(must_raise))
        r = out.value
        rk = "ua" if "ua" in (lt, rt) else "uv"
        api.check(P + "/type", kind_of(api, r) == rk)
        if kind_of(api, r) != rk:
            return
        # ---- dimension
        ref = quant[0]
        for k in KINDS:
            if op in ("add", "sub", "mod"):
                exp = ref.units.dim[k]
            elif op == "mul":
                exp = (a.units.dim[k] if lt != "num" else 0) + (b.units.dim[k] if rt != "num" else 0)
            else:
                exp = (a.units.dim[k] if lt != "num" else 0) - (b.units.dim[k] if rt != "num" else 0)
            api.check(P + "/dim." + k, api.eq(r.units.dim[k], exp))
        # ---- SI value
        if rk == "ua":
            arr = a if lt == "ua" else b
            api.check(P + "/len", api.eq(api.arr_len(r.value), api.arr_len(arr.value)))
            k = api.index("k", api.arr_len(arr.value))
            for x, kd in ((a, lt), (b, rt)):
                if kd == "ua":     # magnitudes are non-zero (quantifier of the property)
                    api.assume(api.not_(api.eq(api.arr_get(x.value, k), 0)))
        else:
            k = None

        def si_of(x, kind, other):
            if kind == "num":
                if op in ("add", "sub", "mod"):
                    return api.num(x) * Q.unit_scale(api, other.units)
                return api.num(x)
            if kind == "uv":
                return Q.si(api, x)
            return Q.si_at(api, x, k)

        sa = si_of(a, lt, b if rt != "num" else None)
        sb = si_of(b, rt, a if lt != "num" else None)
        sr = Q.si(api, r) if rk == "uv" else Q.si_at(api, r, k)
        if op == "add":
            exp = sa + sb
        elif op == "sub":
            exp = sa - sb
        elif op == "mul":
            exp = sa * sb
        elif op == "div":
            exp = sa / sb
        else:
            # the result is stored in the units of one operand (scale S)
            S = Q.unit_scale(api, r.units)
            rv = r.value if rk == "uv" else api.arr_get(r.value, k)
            api.check_fmod(P + "/si", rv, sa, sb, S)
            return
        api.check(P + "/si", api.eq(sr, exp))

    return Case(cid, run, functions=FUNCS_BIN[op])


def cmp_case(op, lt, rt):
    cid = "%s/%s-%s" % (op, lt, rt)
    P = "C05/" + cid

    def run(api):
        a = mk(api, "a", lt)
        b = mk(api, "b", rt)
        out = api.call(lambda: PY[op](a, b))
        both = lt == "uv" and rt == "uv"
        differ = api.not_(Q.dims_equal(api, a.units, b.units)) if both else False
        ordering = op in ("lt", "le", "gt", "ge")
        if not out.ok:
            api.check(P + "/raises_only_if", api.and_(ordering, differ), "raised %s" % type(out.exc).__name__)
            return
        if ordering:
            api.check(P + "/raises_if", api.not_(differ))
        r = out.value
        other_units = a.units if lt == "uv" else b.units
        sa = Q.si(api, a) if lt == "uv" else api.num(a) * Q.unit_scale(api, other_units)
        sb = Q.si(api, b) if rt == "uv" else api.num(b) * Q.unit_scale(api, other_units)
        if op == "lt":
            exp = api.lt(sa, sb)
        elif op == "le":
            exp = api.le(sa, sb)
        elif op == "gt":
            exp = api.lt(sb, sa)
        elif op == "ge":
            exp = api.le(sb, sa)
        elif op == "eq":
            exp = api.and_(api.not_(differ), exact_eq(api, sa, sb))
        else:
            exp = api.not_(api.and_(api.not_(differ), exact_eq(api, sa, sb)))
        if op in ("eq", "ne") and api.mode == "conc":
            # floating-point equality of converted values is not decidable from SI values
            # to rounding; only the dimension rule is replayed concretely
            if both and api.truth(differ):
                api.check(P + "/value", api.iff(r, op == "ne"))
            return
        api.check(P + "/value", api.iff(r, exp))

    return Case(cid, run, functions=["UnitValue.__%s__" % op if op != "ne" else "UnitValue.__eq__",
                                     "UnitValue.convert", "convert_unitvalue", "convert_value",
                                     "compute_conversion_factor", "_UnitsComponentDict.__eq__"])


def exact_eq(api, x, y):
    return api.eq(x, y)


def pow_case(e, label):
    cid = "pow/uv**%s" % label
    P = "C05/" + cid

    def run(api):
        a = mk(api, "a", "uv", positive=True)
        ev = e(api) if callable(e) else e
        out = api.call(lambda: a ** ev)
        # resulting exponents integer?
        nonint = []
        for k in KINDS:
            nonint.append(api.not_(is_integer(api, a.units.dim[k] * ev)))
        must_raise = api.or_(*nonint)
        if not out.ok:
            api.check(P + "/raises_only_if", must_raise, "raised %s" % type(out.exc).__name__)
            return
        api.check(P + "/raises_if", api.not_(must_raise))
        r = out.value
        for k in KINDS:
            api.check(P + "/dim." + k, api.eq(r.units.dim[k], a.units.dim[k] * ev))
        if isinstance(ev, float) and api.mode == "sym":
            # fractional exponent: the SI clause needs multiplicativity of real roots over the unit factors, which the
            # ghost root / power functions do not carry: checked numerically in the concrete twin only (conformance runs)
            return
        exp = power(api, Q.si(api, a), ev)
        api.check(P + "/si", api.eq(Q.si(api, r), exp))

    return Case(cid, run, functions=["UnitValue.__pow__", "Units.raiseto"])


def is_integer(api, x):
    if api.mode == "conc":
        return float(x) == int(float(x)) if abs(float(x) - round(float(x))) > 1e-9 or True else True
    from vc.core.proxies import SReal, SInt, zreal
    import z3
    if isinstance(x, (SInt, int)):
        return True
    return api._z(z3.IsInt(zreal(x))) if False else _isint(api, x)


def _isint(api, x):
    import z3
    from vc.core.proxies import zreal, SBool
    return SBool(z3.IsInt(zreal(x)))


def power(api, base, ev):
    if api.mode == "conc":
        return api.num(base) ** ev
    from vc.core.proxies import zreal, real_pow
    return real_pow(zreal(base), ev)


def unary_case(name, kind, f, spec):
    cid = "%s/%s" % (name, kind)
    P = "C05/" + cid

    def run(api):
        a = mk(api, "a", kind)
        out = api.call(lambda: f(a))
        api.check(P + "/no_raise", out.ok)
        if not out.ok:
            return
        r = out.value
        api.check(P + "/type", kind_of(api, r) == kind)
        if kind_of(api, r) != kind:
            return
        for k in KINDS:
            api.check(P + "/dim." + k, api.eq(r.units.dim[k], a.units.dim[k]))
        if kind == "uv":
            api.check(P + "/si", api.eq(Q.si(api, r), spec(api, Q.si(api, a))))
        else:
            api.check(P + "/len", api.eq(api.arr_len(r.value), api.arr_len(a.value)))
            k = api.index("k", api.arr_len(a.value))
            api.check(P + "/si", api.eq(Q.si_at(api, r, k), spec(api, Q.si_at(api, a, k))))

    cls = "UnitValue" if kind == "uv" else "UnitArray"
    return Case(cid, run, functions=["%s.__%s__" % (cls, name)])


def _abs(api, x):
    return api.ite(api.le(0, x), x, -x)


_COMMON = ["UnitValue.convert", "UnitArray.convert", "convert_unitvalue", "convert_value",
           "compute_conversion_factor", "UnitValue.__init__", "UnitArray.__init__", "UnitArray.set_value",
           "_UnitsComponentDict.__eq__"]
FUNCS_BIN = {
    "add": ["UnitValue.__add__", "UnitValue.__radd__", "UnitArray.__add__", "UnitArray.__radd__",
            "UnitValue._sum", "UnitArray._sum"] + _COMMON,
    "sub": ["UnitValue.__sub__", "UnitValue.__rsub__", "UnitArray.__sub__", "UnitArray.__rsub__",
            "UnitValue._sum", "UnitArray._sum", "_neg", "UnitValue.__neg__", "UnitArray.__neg__"] + _COMMON,
    "mul": ["UnitValue.__mul__", "UnitValue.__rmul__", "UnitArray.__mul__", "UnitArray.__rmul__",
            "UnitValue._product", "UnitArray._product", "Units.multiply"] + _COMMON,
    "div": ["UnitValue.__truediv__", "UnitValue.__rtruediv__", "UnitArray.__truediv__",
            "UnitArray.__rtruediv__", "UnitValue._product", "UnitArray._product", "_inv",
            "UnitValue.invert", "UnitArray.invert", "Units.invert", "Units.multiply"] + _COMMON,
    "mod": ["UnitValue.__mod__", "UnitValue.__rmod__", "UnitArray.__mod__", "UnitArray.__rmod__",
            "UnitValue._modulo", "UnitValue._rmodulo", "UnitArray._modulo", "UnitArray._rmodulo"] + _COMMON,
}

CASES = []
for _op in ("add", "sub", "mul", "div", "mod"):
    for _lt in ("uv", "ua", "num"):
        for _rt in ("uv", "ua", "num"):
            if _lt == "num" and _rt == "num":
                continue
            CASES.append(binop_case(_op, _lt, _rt))
for _op in ("lt", "le", "gt", "ge", "eq", "ne"):
    for _lt, _rt in (("uv", "uv"), ("uv", "num"), ("num", "uv")):
        CASES.append(cmp_case(_op, _lt, _rt))
for _e, _lab in ((2, "2"), (3, "3"), (-1, "-1"), (-2, "-2"), (0, "0"), (1, "1")):
    CASES.append(pow_case(_e, _lab))
CASES.append(pow_case(lambda api: api.int("e", -6, 6, draw=(-3, 3)), "int"))
# fractional exponents: allowed exactly when every resulting dimension exponent is an integer (each dimension is checked)
for _e, _lab in ((0.5, "0.5"), (1.5, "1.5"), (-0.5, "-0.5")):
    CASES.append(pow_case(_e, _lab))
CASES.append(unary_case("neg", "uv", lambda a: -a, lambda api, x: -x))
CASES.append(unary_case("pos", "uv", lambda a: +a, lambda api, x: x))
CASES.append(unary_case("abs", "uv", lambda a: abs(a), _abs))
CASES.append(unary_case("neg", "ua", lambda a: -a, lambda api, x: -x))
CASES.append(unary_case("pos", "ua", lambda a: +a, lambda api, x: x))
CASES.append(unary_case("abs", "ua", lambda a: abs(a), _abs))
