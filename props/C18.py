"""C18  Unit and quantity text: print-parse round-trip, SI meaning, rejection.

The real parse_units / parse_unitvalue / Units.__str__ / UnitValue.__str__ are executed
on token strings (vc/core/tokstr.py).  Grammar quantified over:

  units    := factor (sep factor){0,2}        sep in {'.', '/'}
  factor   := SYMBOL | SYMBOL INT             SYMBOL any of the 47 supported symbols
                                              INT any integer (symbolic, its decimal text)
  quantity := FLOAT BLANKS units              FLOAT repr of any finite double, BLANKS >= 1 blank

Contracts:
  roundtrip    parse_units(str(u)) == u ; parse_unitvalue(str(q)) has q's value and units
  meaning      dimension = sum of +-exponent x symbol dimension; SI scale = product of the
               symbols' SI scales (litre and molar families through their definitions);
               a/b == a.b-1 ; raises iff two factors give different units of one base kind
  rejects      every string of a malformed token class raises
"""
from fractions import Fraction
from vc.core.runner import Case
from vc.core.api import KINDS, KIND_LABELS, SI_TABLE
from spec import quant as Q
from props.C05 import mk_units, DB
from props.C06 import DERIVED

RTOL = 1e-12

META = {
    "level": "proof",
    "trusted_base": [
        "vc/pysym + token-string model of str (vc/core/tokstr.py, tokparse.py: split/strip/replace/count/"
        "iteration by pseudo characters, rule R4)", "z3 / cvc5"],
    "assumptions": [
        "A5 float(repr(x)) == x for finite doubles; int(str(n)) == n",
        "the claim is for all strings of the stated token grammar, not for all strings",
        "tables are arbitrary positive tables here (their SI values: C06 tables case)",
    ],
}

BASE_KINDS = ("space", "time", "quantity")
ALL_SYMBOLS = []
for _k in ("space", "time", "quantity"):
    ALL_SYMBOLS += KIND_LABELS[_k]
VOLUME = ["kL", "L", "mL", "µL", "nL", "pL", "fL"]
DENSITY = ["kM", "M", "dM", "cM", "mM", "µM", "nM", "pM", "fM"]
ALL_SYMBOLS += DENSITY + VOLUME
GROUPS = {"space": KIND_LABELS["space"], "time": KIND_LABELS["time"], "quantity": KIND_LABELS["quantity"],
          "density": DENSITY, "volume": VOLUME}


from spec.text import Txt as _Txt


def Txt(api):
    return _Txt(api, ALL_SYMBOLS)


def symbol(api, name, group=None):
    dom = GROUPS[group] if group else ALL_SYMBOLS
    return api.enum(name, "sym", dom)


# ---------------------------------------------------------------------------
def contributions(api, sym):
    """[(kind, base unit, multiplier)] of a symbol (spec; litre = dm3 family, molar = mol/L family).
    In symbolic mode the symbol is split by group only (not by individual symbol) for base kinds."""
    def conc(s):
        for k in BASE_KINDS:
            if s in KIND_LABELS[k]:
                return [(k, s, 1)]
        sp, mult, qu = DERIVED[s]
        out = [("space", sp, mult)]
        if qu:
            out.append(("quantity", qu, 1))
        return out
    if isinstance(sym, str):
        return conc(sym)
    # symbolic: decide the group (the parser's own path already did), then the symbol if derived
    for k in BASE_KINDS:
        if api.truth(in_group(api, sym, k)):
            return [(k, sym, 1)]
    return conc(sym.concretize())


def in_group(api, sym, group):
    import z3
    from vc.core.proxies import SBool
    alts = [sym.z == i for i, s in enumerate(sym.domain) if s in GROUPS[group]]
    return SBool(z3.Or(*alts)) if alts else False


def expected_units(api, factors):
    """factors: [(symbol, exponent, sign)] -> (conflict condition, dims dict, scale)"""
    dims = {k: 0 for k in KINDS}
    base = {k: [] for k in KINDS}
    scale = 1
    for (sym, e, sign) in factors:
        for (kind, b, mult) in contributions(api, sym):
            ee = sign * mult * e
            dims[kind] = dims[kind] + ee
            base[kind].append(b)
            scale = scale * api.pw(api.tbl(kind, b), ee)
    conflicts = []
    for k in KINDS:
        bs = base[k]
        for i in range(len(bs)):
            for j in range(i + 1, len(bs)):
                conflicts.append(api.not_(api.eq(bs[i], bs[j])))
    return (api.or_(*conflicts) if conflicts else False), dims, scale, base


def meaning_case(nf, seps, explicit, group1=None, group2=None, tier_thorough=False):
    """nf factors, separators seps (tuple of '.'/'/'), explicit[i]: factor i has an exponent"""
    tag = "".join("E" if x else "1" for x in explicit)
    cid = "meaning/%d%s/%s%s%s" % (nf, "".join(seps).replace("/", "s").replace(".", "d"), tag,
                                   ("/" + group1) if group1 else "", ("-" + group2) if group2 else "")
    P = "C18/meaning/%d" % nf

    def run(api):
        U = api.mod("units")
        t = Txt(api)
        factors = []
        sign = 1
        for i in range(nf):
            if i > 0:
                t.lit(seps[i - 1])
            s = symbol(api, "s%d" % i, group1 if i == 0 else (group2 if i == 1 else None))
            t.sym(s)
            if explicit[i]:
                e = api.int("n%d" % i, -9, 9)
                t.int(e)
            else:
                e = 1
            factors.append((s, e, -1 if (i > 0 and seps[i - 1] == "/") else 1))
        text = t.build()
        out = api.call(lambda: U.parse_units(text))
        conflict, dims, scale, base = expected_units(api, factors)
        if not out.ok:
            api.check(P + "/raises_only_if_conflict", conflict, "raised %s" % type(out.exc).__name__)
            return
        api.check(P + "/raises_if_conflict", api.not_(conflict))
        u = out.value
        for k in KINDS:
            api.check(P + "/dim." + k, api.eq(u.dim[k], dims[k]))
            if base[k]:
                # the base unit of that kind is the one the symbols define (when it matters)
                api.check(P + "/sys." + k, api.or_(api.eq(u.dim[k], 0), api.eq(u.sys[k], base[k][0])))
        api.check(P + "/scale", api.eq(Q.unit_scale(api, u), scale))

    return Case(cid, run, functions=["parse_units"], max_paths=20000, thorough_only=tier_thorough)


def slash_case():
    """a/b^n  ==  a.b^-n"""
    cid = "meaning/slash-equals-negative-exponent"
    P = "C18/" + cid

    def run(api):
        U = api.mod("units")
        a = symbol(api, "s0")
        b = symbol(api, "s1")
        n = api.int("n", -9, 9)
        m = api.int("m", -9, 9)
        t1 = Txt(api).sym(a).int(m).lit("/").sym(b).int(n).build()
        t2 = Txt(api).sym(a).int(m).lit(".").sym(b).int(-n).build()
        o1 = api.call(lambda: U.parse_units(t1))
        o2 = api.call(lambda: U.parse_units(t2))
        api.check(P + "/same_outcome", o1.ok == o2.ok)
        if o1.ok and o2.ok:
            for k in KINDS:
                api.check(P + "/dim." + k, api.eq(o1.value.dim[k], o2.value.dim[k]))
            api.check(P + "/scale", api.eq(Q.unit_scale(api, o1.value), Q.unit_scale(api, o2.value)))

    return Case(cid, run, functions=["parse_units"], max_paths=20000)


def order_case():
    """a.b == b.a"""
    cid = "meaning/order-independent"
    P = "C18/" + cid

    def run(api):
        U = api.mod("units")
        a = symbol(api, "s0")
        b = symbol(api, "s1")
        n = api.int("n", -9, 9)
        m = api.int("m", -9, 9)
        t1 = Txt(api).sym(a).int(m).lit(".").sym(b).int(n).build()
        t2 = Txt(api).sym(b).int(n).lit(".").sym(a).int(m).build()
        o1 = api.call(lambda: U.parse_units(t1))
        o2 = api.call(lambda: U.parse_units(t2))
        api.check(P + "/same_outcome", o1.ok == o2.ok)
        if o1.ok and o2.ok:
            for k in KINDS:
                api.check(P + "/dim." + k, api.eq(o1.value.dim[k], o2.value.dim[k]))
            api.check(P + "/scale", api.eq(Q.unit_scale(api, o1.value), Q.unit_scale(api, o2.value)))

    return Case(cid, run, functions=["parse_units"], max_paths=20000)


def roundtrip_units_case():
    cid = "roundtrip/units"
    P = "C18/" + cid

    def run(api):
        U = api.mod("units")
        u = mk_units(api, "u")
        text = api.call(lambda: str(u) if api.mode == "conc" else u.__str__())
        api.check(P + "/print_ok", text.ok)
        if not text.ok:
            return
        out = api.call(lambda: U.parse_units(text.value))
        api.check(P + "/parse_ok", out.ok, "raised %r" % (out.exc,))
        if not out.ok:
            return
        r = out.value
        for k in KINDS:
            api.check(P + "/dim." + k, api.eq(r.dim[k], u.dim[k]))
            api.check(P + "/sys." + k, api.or_(api.eq(u.dim[k], 0), api.eq(r.sys[k], u.sys[k])))
        eq = api.call(lambda: r == u)
        api.check(P + "/units_eq", eq.ok and api.truth(eq.value) if eq.ok else False)

    return Case(cid, run, functions=["Units.__str__", "parse_units", "Units.__eq__"], max_paths=20000)


def roundtrip_value_case():
    cid = "roundtrip/quantity"
    P = "C18/" + cid

    def run(api):
        U = api.mod("units")
        u = mk_units(api, "u")
        q = U.UnitValue(api.real("v"), u)
        text = api.call(lambda: str(q) if api.mode == "conc" else q.__str__())
        api.check(P + "/print_ok", text.ok)
        if not text.ok:
            return
        out = api.call(lambda: U.parse_unitvalue(text.value))
        api.check(P + "/parse_ok", out.ok, "raised %r" % (out.exc,))
        if not out.ok:
            return
        r = out.value
        if api.mode == "conc":
            api.check(P + "/value_bit_identical", r.value == q.value)
        else:
            api.check(P + "/value_bit_identical", api.eq(r.value, q.value))
        for k in KINDS:
            api.check(P + "/dim." + k, api.eq(r.units.dim[k], u.dim[k]))
            api.check(P + "/sys." + k, api.or_(api.eq(u.dim[k], 0), api.eq(r.units.sys[k], u.sys[k])))

    return Case(cid, run, functions=["UnitValue.__str__", "Units.__str__", "parse_unitvalue", "parse_units"],
                max_paths=20000)


def quantity_meaning_case():
    cid = "meaning/quantity"
    P = "C18/" + cid

    def run(api):
        U = api.mod("units")
        v = api.real("v")
        s0 = symbol(api, "s0")
        s1 = symbol(api, "s1")
        n0 = api.int("n0", -9, 9)
        n1 = api.int("n1", -9, 9)
        t = Txt(api).flt(v).ws(1, "w0").sym(s0).int(n0).lit("/").sym(s1).int(n1).build()
        out = api.call(lambda: U.parse_unitvalue(t))
        conflict, dims, scale, base = expected_units(api, [(s0, n0, 1), (s1, n1, -1)])
        if not out.ok:
            api.check(P + "/raises_only_if_conflict", conflict, "raised %s" % type(out.exc).__name__)
            return
        api.check(P + "/raises_if_conflict", api.not_(conflict))
        r = out.value
        api.check(P + "/value", api.eq(r.value, v) if api.mode == "sym" else r.value == v)
        for k in KINDS:
            api.check(P + "/dim." + k, api.eq(r.units.dim[k], dims[k]))
        api.check(P + "/scale", api.eq(Q.unit_scale(api, r.units), scale))

    return Case(cid, run, functions=["parse_unitvalue", "parse_units"], max_paths=20000)


# ---------------------------------------------------------------------------
# rejection classes: every string of the class must raise
def reject_case(name, build, fn="parse_units"):
    cid = "rejects/" + name
    P = "C18/" + cid

    def run(api):
        U = api.mod("units")
        text = build(api)
        f = getattr(U, fn)
        out = api.call(lambda: f(text))
        api.check(P + "/raises", not out.ok,
                  "accepted as %s" % (out.value if api.mode == "conc" and out.ok else "a value"))

    return Case(cid, run, functions=[fn], max_paths=20000)


def _sep(api, name):
    return [".", "/"][api.int(name, 0, 1)] if api.mode == "conc" else None


def both_seps(name, build):
    """one case per separator"""
    out = []
    for s, tag in ((".", "dot"), ("/", "slash")):
        out.append(reject_case("%s-%s" % (name, tag), (lambda api, s=s: build(api, s))))
    return out


REJECTS = []
REJECTS.append(reject_case("unknown-symbol", lambda api: Txt(api).label("l0").build()))
REJECTS.append(reject_case("unknown-symbol-with-exponent",
                           lambda api: Txt(api).label("l0").int(api.int("n", -9, 9)).build()))
REJECTS += both_seps("unknown-second-symbol",
                     lambda api, s: Txt(api).sym(symbol(api, "s0")).lit(s).label("l0").build())
REJECTS += both_seps("doubled-separator",
                     lambda api, s: Txt(api).sym(symbol(api, "s0")).lit(s).lit(s).sym(symbol(api, "s1")).build())
REJECTS += both_seps("leading-separator",
                     lambda api, s: Txt(api).lit(s).sym(symbol(api, "s0")).int(api.int("n", -9, 9)).build())
REJECTS += both_seps("trailing-separator",
                     lambda api, s: Txt(api).sym(symbol(api, "s0")).int(api.int("n", -9, 9)).lit(s).build())
REJECTS.append(reject_case("plus-signed-exponent",
                           lambda api: Txt(api).sym(symbol(api, "s0")).lit("+").int(api.int("n", 0, 9)).build()))
REJECTS.append(reject_case("fractional-exponent",
                           lambda api: Txt(api).sym(symbol(api, "s0")).int(api.int("n", -9, 9)).lit(".")
                           .int(api.int("m", 0, 9)).build()))
REJECTS.append(reject_case("exponent-before-symbol",
                           lambda api: Txt(api).int(api.int("n", 0, 9)).sym(symbol(api, "s0")).build()))
REJECTS.append(reject_case("blank-inside-units",
                           lambda api: Txt(api).sym(symbol(api, "s0")).ws(1, "w").sym(symbol(api, "s1")).build()))
REJECTS.append(reject_case("blank-before-exponent",
                           lambda api: Txt(api).sym(symbol(api, "s0")).ws(1, "w").int(api.int("n", 0, 9)).build()))
# quantities
REJECTS.append(reject_case("quantity/blank-inside-unit-part",
                           lambda api: Txt(api).flt(api.real("v")).ws(1, "w0").sym(symbol(api, "s0")).ws(1, "w1")
                           .sym(symbol(api, "s1")).build(), fn="parse_unitvalue"))
REJECTS.append(reject_case("quantity/blank-before-separator",
                           lambda api: Txt(api).flt(api.real("v")).ws(1, "w0").sym(symbol(api, "s0")).int(api.int("n", 2, 9))
                           .ws(1, "w1").lit(".").sym(symbol(api, "s1")).build(), fn="parse_unitvalue"))
REJECTS.append(reject_case("quantity/value-not-separated",
                           lambda api: Txt(api).flt(api.real("v")).sym(symbol(api, "s0")).build(),
                           fn="parse_unitvalue"))
REJECTS.append(reject_case("quantity/non-numeric-value",
                           lambda api: Txt(api).label("l0").ws(1, "w0").sym(symbol(api, "s0")).build(),
                           fn="parse_unitvalue"))

def special_values_case(api):
    """bit-identical round trip of values the real-number model cannot distinguish (finite list)"""
    import math
    import struct
    U = api.mod("units")
    P = "C18/roundtrip/special-values"
    vals = [0.0, -0.0, 5e-324, -5e-324, 2.2250738585072014e-308, 1.7976931348623157e308, -1.7976931348623157e308,
            0.1, 1 / 3, 1e22, 1e23, 123456789.12345678, 9007199254740993.0, 1e-7, 1.0000000000000002]
    for v in vals:
        for units in ("µm", "mol/s", ""):
            q = U.UnitValue(v, units)
            r = U.parse_unitvalue(str(q))
            api.check(P + "/%r" % v, struct.pack("d", r.value) == struct.pack("d", q.value) and r.units == q.units,
                      "%r %s -> %r" % (v, units, r.value))
            q2 = U.UnitValue(1.0, units) * v
            r2 = U.parse_unitvalue(str(q2))
            api.check(P + "/computed/%r" % v, struct.pack("d", r2.value) == struct.pack("d", q2.value))


def ascii_micro_case(api):
    """every symbol with the micro prefix may be spelled with an ASCII 'u': same meaning (finite table)"""
    U = api.mod("units")
    P = "C18/ascii-micro"
    for sym in ("m", "s", "mol", "L", "M", "molecule"):
        for e in ("", "2", "-1"):
            a, b = "u%s%s" % (sym, e), "µ%s%s" % (sym, e)
            ra = api.call(lambda: U.parse_units(a))
            rb = api.call(lambda: U.parse_units(b))
            api.check(P + "/%s-accepted-like-%s" % (a, b), ra.ok == rb.ok)
            if ra.ok and rb.ok:
                api.check(P + "/%s=%s" % (a, b), ra.value == rb.value and str(ra.value) == str(rb.value), "%s / %s" % (ra.value, rb.value))
                va, vb = U.UnitValue(2.5, a).convert(U.UnitsSystem()), U.UnitValue(2.5, b).convert(U.UnitsSystem())
                api.check(P + "/%s=%s (value in default units)" % (a, b), va.value == vb.value)


CASES = [Case("ascii-micro", ascii_micro_case, functions=["parse_units"], sym=False,
              bounded="6 symbols x 3 exponents, exhaustive"),
         Case("roundtrip/special-values", special_values_case, functions=["UnitValue.__str__", "parse_unitvalue"],
              sym=False, bounded="15 special doubles (signed zeros, denormals, extremes) x 3 units, exhaustive"),
         roundtrip_units_case(), roundtrip_value_case(), quantity_meaning_case(), slash_case(), order_case()]
for _e in ((False,), (True,)):
    CASES.append(meaning_case(1, (), _e))
for _s in (".", "/"):
    for _e in ((True, True), (False, True), (True, False), (False, False)):
        CASES.append(meaning_case(2, (_s,), _e))
# three factors: split by the group of the first symbol (parallelism); explicit exponents;
# quick tier: '.' '/' mix, thorough: all four separator pairs and the implicit-exponent forms
for _g in GROUPS:
    for _g2 in GROUPS:
        CASES.append(meaning_case(3, (".", "/"), (True, True, True), _g, _g2))
        for _ss in ((".", "."), ("/", "."), ("/", "/")):
            CASES.append(meaning_case(3, _ss, (True, True, True), _g, _g2, tier_thorough=True))
        CASES.append(meaning_case(3, (".", "/"), (False, True, False), _g, _g2, tier_thorough=True))
CASES += REJECTS
