"""Engine side of C01/C03: the constants the native engine derives from what the seam hands over, and its
deterministic rates (real C++ through vc/cppsym).
  Build_mesh_kr   mesh_kr[cell, r] = k[environment(cell), r] x volume(cell)^(1 - sum_s sub[s, r])       (grid and graph)
  Build_mesh_kd   grid: 0 towards a missing neighbour, else Dij / edge^2 with Dij = 2 edge / (edge/Di + edge/Dj), 0 when Di or Dj is 0,
                  Di = D[s, environment(cell)], Dj = D[s, environment(neighbour)]
  ReactionRate    = mesh_kr[cell, r] x prod_s x[cell, s]^sub[s, r]
Together with C02's Compute_dxdt / DiffusionRateDifference contracts this is the rate law of the statement in amounts
(k V^(1-q) prod x^sub = V k prod (x/V)^sub).
"""
from vc.core.runner import Case
try:
    import z3
    from vc.cppsym import contracts as K
    from vc.cppsym.interp import Frame, Vec, Vec2, Ptr, Obj, CPOW
except ImportError:
    z3 = None


def _c11():
    from props import C11
    return C11


def build_kr_case(cls, prop="C01"):
    P = "%s/%s::Build_mesh_kr" % (prop, cls)

    def run(api):
        prog = _c11().program()
        c = api.ctx
        inv0 = dict(K.LOOP_INV)
        I = K.make_interp(prog, c, prop, loop_inv=inv0)
        o = K.valid_object(I, cls)
        K.assume_content_invariants(I, o)
        f = dict(o.fields)
        S, R, M, E = f["n_species"], f["n_reactions"], f["n_meshes"], f["n_env"]
        i0, r0 = K._int(I, "i0", 0), K._int(I, "r0", 0)
        c.assume(z3.And(i0 < M, r0 < R))
        k = I.fresh_vec("k", "real", E * R)
        env = f["mesh_env"].arr
        j_ = z3.Int("j!env")
        c.assume(z3.ForAll([j_], z3.Implies(z3.And(j_ >= 0, j_ < M), z3.And(z3.Select(env, j_) >= 0, z3.Select(env, j_) < E))))
        QS = z3.Function("order_upto", z3.IntSort(), z3.IntSort(), z3.RealSort())      # (r, s) -> sum_{s'<s} sub[s'*R+r]
        r_ = z3.Int("r!q")
        c.assume(z3.ForAll([r_], QS(r_, 0) == 0))
        sub = f["sub"].arr
        vol = f["mesh_vol"] if K.is_grid(cls) else z3.Select(f["mesh_vol"].arr, i0)
        if K.is_grid(cls):
            c.assume(f["mesh_vol"] > 0)          # ABI precondition (positive cell volume)
        want = z3.Select(k.arr, z3.Select(env, i0) * R + r0) * CPOW(I.to_real(vol), 1 - QS(r0, S))

        def L(fr, nm):
            return I.local_by_name(fr, nm)

        def kr(fr):
            return fr.this.fields["mesh_kr"]

        def inv_i(I_, fr, stage):
            i = L(fr, "i")
            return [kr(fr).n == M * R, z3.Implies(i > i0, z3.Select(kr(fr).arr, i0 * R + r0) == want)]

        def inv_r(I_, fr, stage):
            i, r = L(fr, "i"), L(fr, "r")
            return [kr(fr).n == M * R, z3.Implies(z3.Or(i > i0, z3.And(i == i0, r > r0)), z3.Select(kr(fr).arr, i0 * R + r0) == want)]

        def inv_s(I_, fr, stage):
            i, r, s, q = L(fr, "i"), L(fr, "r"), L(fr, "s"), L(fr, "q")
            if stage == "assume":
                c.assume(z3.Implies(s >= 0, QS(r, s + 1) == QS(r, s) + I_.to_real(z3.Select(sub, s * R + r))))     # definition
            return inv_r(I_, fr, stage)[:1] + [z3.Implies(z3.Or(i > i0, z3.And(i == i0, r > r0)), z3.Select(kr(fr).arr, i0 * R + r0) == want),
                                               q == QS(r, s)]
        inv0.update({("Build_mesh_kr", 1): inv_i, ("Build_mesh_kr", 2): inv_r, ("Build_mesh_kr", 3): inv_s})
        fn, _ = prog.method(cls, "Build_mesh_kr")
        I.call(fn, o, [k], fn, Frame("top"))
        c.oblige(P + "/every-entry: k[env(cell), r] x volume^(1 - order)", z3.Select(o.fields["mesh_kr"].arr, i0 * R + r0) == want)
        c.oblige(P + "/length", o.fields["mesh_kr"].n == M * R)

    return Case("engine/%s/Build_mesh_kr" % cls, run, functions=["%s::Build_mesh_kr" % cls], conc=False, max_paths=3000)


def build_kd_grid_case(cls, prop="C01"):
    P = "%s/%s::Build_mesh_kd" % (prop, cls)

    def run(api):
        prog = _c11().program()
        c = api.ctx
        inv0 = dict(K.LOOP_INV)
        I = K.make_interp(prog, c, prop, loop_inv=inv0)
        o = K.valid_object(I, cls)
        K.assume_content_invariants(I, o)
        f = dict(o.fields)
        S, M, E = f["n_species"], f["n_meshes"], f["n_env"]
        s0, i0, n0 = K._int(I, "s0", 0), K._int(I, "i0", 0), K._int(I, "n0", 0)
        c.assume(z3.And(s0 < S, i0 < M, n0 < 6))
        D = I.fresh_vec("D", "real", S * E)
        env = f["mesh_env"].arr
        j_ = z3.Int("j!env")
        c.assume(z3.ForAll([j_], z3.Implies(z3.And(j_ >= 0, j_ < M), z3.And(z3.Select(env, j_) >= 0, z3.Select(env, j_) < E))))
        edge = f["mesh_edge"]
        c.assume(edge > 0)
        nb = z3.Select(f["mesh_neighbors"].arr, i0 * 6 + n0)
        Di = z3.Select(D.arr, s0 * E + z3.Select(env, i0))
        Dj = z3.Select(D.arr, s0 * E + z3.Select(env, nb))
        Dij = z3.If(z3.And(Di != 0, Dj != 0), (2 * edge) / (edge / Di + edge / Dj), 0)
        want = z3.If(nb == -1, 0, Dij / (edge * edge))
        idx0 = i0 * S * 6 + s0 * 6 + n0

        def L(fr, nm):
            return I.local_by_name(fr, nm)

        def kd(fr):
            return fr.this.fields["mesh_kd"]

        def done(fr, level):
            s, i, n = L(fr, "s"), (L(fr, "i") if level >= 2 else z3.IntVal(0)), (L(fr, "n") if level >= 3 else z3.IntVal(0))
            return z3.Or(s > s0, z3.And(s == s0, z3.Or(i > i0, z3.And(i == i0, n > n0))))

        def mk(level):
            def inv(I_, fr, stage):
                return [kd(fr).n == S * M * 6, z3.Implies(done(fr, level), z3.Select(kd(fr).arr, idx0) == want)]
            return inv
        inv0.update({("Build_mesh_kd", 1): mk(1), ("Build_mesh_kd", 2): mk(2), ("Build_mesh_kd", 3): mk(3)})
        fn, _ = prog.method(cls, "Build_mesh_kd")
        I.call(fn, o, [D], fn, Frame("top"))
        c.oblige(P + "/every-entry: 0 without neighbour, else harmonic interface diffusivity / edge^2 (0 if either side is 0)",
                 z3.Select(o.fields["mesh_kd"].arr, idx0) == want)

    return Case("engine/%s/Build_mesh_kd" % cls, run, functions=["%s::Build_mesh_kd" % cls], conc=False, max_paths=3000)


def build_kd_graph_case(cls, prop="C01"):
    P = "%s/%s::Build_mesh_kd" % (prop, cls)

    def run(api):
        prog = _c11().program()
        c = api.ctx
        inv0 = dict(K.LOOP_INV)
        I = K.make_interp(prog, c, prop, loop_inv=inv0)
        o = K.valid_object(I, cls)
        K.assume_content_invariants(I, o)
        for fct in K.rows_match_counts(I, o):
            c.assume(fct)
        f = dict(o.fields)
        S, M, E = f["n_species"], f["n_meshes"], f["n_env"]
        i0, s0, n0 = K._int(I, "i0", 0), K._int(I, "s0", 0), K._int(I, "n0", 0)
        cnt0 = z3.Select(f["mesh_neighbor_n"].arr, i0)
        c.assume(z3.And(i0 < M, s0 < S, n0 < cnt0))
        D = I.fresh_vec("D", "real", S * E)
        env = f["mesh_env"].arr
        j_ = z3.Int("j!env")
        c.assume(z3.ForAll([j_], z3.Implies(z3.And(j_ >= 0, j_ < M), z3.And(z3.Select(env, j_) >= 0, z3.Select(env, j_) < E))))
        j0 = z3.Select(z3.Select(f["mesh_neighbor_index"].arr, i0), n0)
        vol = f["mesh_vol"].arr
        from vc.core.proxies import root_fn
        cbrt = root_fn(3)                       # pow(x, 1.0/3.0) is read as the ghost cube root (root^3 = x)
        hi, hj = cbrt(z3.Select(vol, i0)), cbrt(z3.Select(vol, j0))
        Di = z3.Select(D.arr, s0 * E + z3.Select(env, i0))
        Dj = z3.Select(D.arr, s0 * E + z3.Select(env, j0))
        Dij = z3.If(z3.And(Di != 0, Dj != 0), (hi + hj) / (hi / Di + hj / Dj), 0)
        sfc = z3.Select(z3.Select(f["mesh_neighbor_sfc"].arr, i0), n0)
        dst = z3.Select(z3.Select(f["mesh_neighbor_dst"].arr, i0), n0)
        want_out = Dij * sfc / (z3.Select(vol, i0) * dst)
        want_in = Dij * sfc / (z3.Select(vol, j0) * dst)
        slot = s0 * cnt0 + n0

        def L(fr, nm):
            return I.local_by_name(fr, nm)

        def entry(fr, nm):
            return z3.Select(z3.Select(fr.this.fields[nm].arr, i0), slot)

        def done(fr, level):
            i = L(fr, "i")
            s = L(fr, "s") if level >= 2 else z3.IntVal(0)
            n = L(fr, "n") if level >= 3 else z3.IntVal(0)
            return z3.Or(i > i0, z3.And(i == i0, z3.Or(s > s0, z3.And(s == s0, n > n0))))

        def mk(level):
            def inv(I_, fr, stage):
                ff = fr.this.fields
                out = [ff["mesh_kd_out"].n == M, ff["mesh_kd_in"].n == M,
                       z3.Implies(done(fr, level), z3.And(entry(fr, "mesh_kd_out") == want_out, entry(fr, "mesh_kd_in") == want_in))]
                if level >= 2:
                    i = L(fr, "i")
                    ln = S * z3.Select(ff["mesh_neighbor_n"].arr, i)
                    out.append(z3.And(z3.Select(ff["mesh_kd_out"].lens, i) == ln, z3.Select(ff["mesh_kd_in"].lens, i) == ln))
                return out
            return inv
        inv0.update({("Build_mesh_kd", 1): mk(1), ("Build_mesh_kd", 2): mk(2), ("Build_mesh_kd", 3): mk(3)})

        def at_store(want, what):
            # assert-then-assume at the store of the Skolem slot, as an implication whose premises (i, s, n) = (i0, s0, n0) are
            # used by the rational-function back end (no path split)
            def chk(I_, o_, fr, v, idx):
                i, s_, n = L(fr, "i"), L(fr, "s"), L(fr, "n")
                if i is None or s_ is None or n is None:
                    return None
                fact = z3.Implies(z3.And(i == i0, s_ == s0, n == n0), v == want)
                c.oblige(P + "/store-of-the-%s-constant-of-the-chosen-slot" % what, fact)
                c.assume(fact)
                return None
            return chk
        I.store_checks = dict(I.store_checks)
        I.store_checks["mesh_kd_out"] = at_store(want_out, "outgoing")
        I.store_checks["mesh_kd_in"] = at_store(want_in, "incoming")
        fn, _ = prog.method(cls, "Build_mesh_kd")
        I.call(fn, o, [D], fn, Frame("top"))
        c.oblige(P + "/every-slot: outgoing constant = Dij x surface / (own volume x distance)", entry(Frame("x", o), "mesh_kd_out") == want_out)
        c.oblige(P + "/every-slot: incoming constant = Dij x surface / (neighbour volume x distance)", entry(Frame("x", o), "mesh_kd_in") == want_in)

    return Case("engine/%s/Build_mesh_kd" % cls, run, functions=["%s::Build_mesh_kd" % cls], conc=False, max_paths=3000,
                note="about 2 minutes")


def reaction_rate_case(cls, prop="C01"):
    P = "%s/%s::ReactionRate" % (prop, cls)

    def run(api):
        prog = _c11().program()
        c = api.ctx
        inv0 = dict(K.LOOP_INV)
        I = K.make_interp(prog, c, prop, loop_inv=inv0)
        o = K.valid_object(I, cls)
        K.assume_content_invariants(I, o)
        f = o.fields
        S, R, M = f["n_species"], f["n_reactions"], f["n_meshes"]
        mi, ri = K._int(I, "mesh_index", 0), K._int(I, "reaction_index", 0)
        c.assume(z3.And(mi < M, ri < R))
        PP = z3.Function("power_product_upto", z3.IntSort(), z3.RealSort())      # prod_{s'<s} pow(x[cell,s'], sub[s',r])
        c.assume(PP(0) == 1)
        kr = z3.Select(f["mesh_kr"].arr, mi * R + ri)

        def factor(s):
            return CPOW(z3.Select(f["mesh_x"].arr, mi * S + s), I.to_real(z3.Select(f["sub"].arr, s * R + ri)))

        def inv(I_, fr, stage):
            r, s = I_.local_by_name(fr, "r"), I_.local_by_name(fr, "s")
            if stage == "assume":
                c.assume(z3.Implies(s >= 0, PP(s + 1) == PP(s) * factor(s)))          # definition
            return [r == kr * PP(s)]
        inv0[("ReactionRate", 1)] = inv
        fn, _ = prog.method(cls, "ReactionRate")
        r = I.call(fn, o, [mi, ri], fn, Frame("top"))
        c.oblige(P + "/value: mesh_kr[cell, r] x product of amounts to their substrate orders", r == kr * PP(S))

    return Case("engine/%s/ReactionRate" % cls, run, functions=["%s::ReactionRate" % cls], conc=False)


def _dispatch_proxy(space, mode, option):
    """C14's dispatch case, imported when the case runs (C14 -> C11 -> C04 -> C01 would be a cycle at import time)"""
    def run(api):
        from props import C14
        return C14.dispatch_case(space, mode, option).fn(api)
    return Case("dispatch/%s/%s/%s" % (space, mode, option), run, functions=["engineexport_initialize_" + space], conc=False,
                max_paths=4000)


def cases(prop="C01"):
    if z3 is None:
        return []
    out = []
    for cls in ("Euler3D", "EulerGraph"):
        out.append(build_kr_case(cls, prop))
        out.append(reaction_rate_case(cls, prop))
    out.append(build_kd_grid_case("Euler3D", prop))
    out.append(build_kd_graph_case("EulerGraph", prop))
    # the exported set-up functions hand every array and scalar to the Init parameter of the same name (C14's dispatch case)
    out.append(_dispatch_proxy("grid", "none", "euler"))
    out.append(_dispatch_proxy("graph", "none", "euler"))
    return out
