"""C04  Physical results do not depend on the units used to state or report them.

(i)   every dimensioned input reaches the computation as its SI value: bare numbers mean
      number x scale(owner's units system, field dimension); the owner's system is the explicit one, the
      parent's ('inherit') or the default, for every dictionary reader;
(ii)  the seam: every number LibRDEngine hands to the native engine is  SI value / scale(engine units),
      in the parameter order of the C function (read from clang's AST of engine.cpp), and every number
      coming back is multiplied back and reported in the script's units system;
(iii) kinetics functions report in the requested units system (C01 obligations: result SI value does not
      depend on it).
The rate law itself being expressed in SI (C01) and the engine formulas being the same rational functions of
the marshalled numbers whatever the engine units, (i)+(ii) give unit independence of the trajectories.
"""
from vc.core.runner import Case
from vc.core.api import KINDS, KIND_LABELS
from spec import quant as Q
from spec import model as M
from props.C01 import env_si, k_dims

META = {
    "level": "proof",
    "trusted_base": ["vc/pysym incl. the ctypes model and the recording stand-in for the loaded library", "z3 / cvc5",
                     "clang AST for the parameter order of engineexport_initialize_grid/_graph"],
    "assumptions": ["A1", "structure enumerated (2 species, 1 reversible reaction, 2 environments, 3-node graph); grid size, "
                    "state, maps, constants, times and every unit system symbolic",
                    "homogeneity of the engine's formulas in its working units is not re-proved here (dimension typing of the "
                    "C++ formulas is not implemented): see DESIGN.md C04 'not decided'"],
}
QTY, VOL, DCOEF, TIME = M.dims_of("quantity"), M.dims_of("volume"), M.dims_of("D"), M.dims_of("time")
SURF, DIST = M.dims_of("surface"), M.dims_of("distance")
POLICIES = ["on_t_sample", "on_iteration", "on_interval", "no_sampling"]
MODES = ["auto", "none", "Poisson", "redist"]
BCS = ["reflecting", "periodical"]


def param_names(fname):
    from vc.cppsym.ast import Program
    import os
    key = ("prog", os.environ.get("VERIF_REPO", "/repo"))
    if key not in _CACHE:
        _CACHE[key] = Program()
    prog = _CACHE[key]
    fn = prog.functions[fname][0]
    return [p["name"] for p in prog.params(fn)]


_CACHE = {}


def recording_lib(api):
    if api.mode == "sym":
        from vc.pysym.ctshim import RecordingLib
        return RecordingLib()
    return ConcLib()


class _CFn:
    def __init__(self, lib, name):
        self.lib, self.name, self.restype = lib, name, None

    def __call__(self, *args):
        self.lib.calls.append((self.name, args))
        h = self.lib.handlers.get(self.name)
        return h(*args) if h else 0


class ConcLib:
    def __init__(self):
        self.calls, self.handlers, self._f = [], {}, {}

    def __getattr__(self, name):
        if name.startswith("engineexport_"):
            if name not in self._f:
                self._f[name] = _CFn(self, name)
            return self._f[name]
        raise AttributeError(name)

    def __deepcopy__(self, memo):
        return self


def cval(x):
    """python value of a marshalled scalar"""
    v = getattr(x, "value", x)
    if isinstance(v, bytes):
        return v.decode()
    return v


def celem(api, a, k):
    return a[k]


def mk_script(api, space_kind):
    R = api.mod("rdsystem")
    S = api.mod("rdscript")
    E = 2
    net = M.mk_network(api, S=2, E=E, D_shapes=["scalar", "dict:e0,default"],
                       reactions=[("A + B -> 2 B", "scalar", "dict:e1,default")], species_units=True)
    if space_kind == "grid":
        g = M.mk_grid(api, E=E)
        n = g.n
    else:
        g = M.mk_graph(api, N=3, edges=((0, 1), (2, 1)), E=E, own_units_nodes=(0,), own_units_edges=())
        n = 3
    sys_us = M.mk_system(api, "sys")
    st = api.array("st", 2 * n)
    ch = api.array("ch", 2 * n, sort="int")
    if api.mode == "conc":
        ch = [abs(v) % 2 for v in ch]
    system = R.RDSystem(net.obj, g.obj, state=st, chemostats=ch, units_system=sys_us)
    sc_us = M.mk_system(api, "scr")
    nt = api.length("nt", 1, 4)
    if api.mode == "sym":
        api.ctx.assume(nt.z >= 1)
    ts = api.array("ts", nt)
    dt, tmax, si = api.real("dt", positive=True), api.real("tmax"), api.real("sint", positive=True)
    seed = api.int("seed", 0, 2**31 - 1)
    pol = api.enum("policy", "policy", POLICIES)
    mode = api.enum("mode", "mode", MODES)
    # the step, the end time and the sampling interval are stated in a units system of their own (a quantity keeps its units)
    U = api.mod("units")
    tq_us = M.mk_system(api, "tq")

    def tq(v):
        return U.UnitValue(v, U.Units(tq_us, U.time_units_dimensions()))
    script = S.RDScript(system, ts, time_step=tq(dt), t_max=tq(tmax), sampling_policy=pol, sampling_interval=tq(si),
                        rng_seed=seed, init_state_processing=mode, units_system=sc_us)
    info = dict(net=net, g=g, n=n, st=st, ch=ch, sys_us=sys_us, sc_us=sc_us, nt=nt, ts=ts, dt=dt, tmax=tmax, si=si,
                seed=seed, pol=pol, mode=mode, E=E, tq_us=tq_us)
    return script, info


def engine_units(api, info, requires_molecules):
    U = api.mod("units")
    us = info["sc_us"]
    if requires_molecules:
        return U.UnitsSystem(space=us["space"], time=us["time"], quantity="molecule")
    return us


def marshal_case(space_kind, requires_molecules):
    opt = "gillespie" if requires_molecules else "euler"
    cid = "seam/marshal/%s/%s" % (space_kind, opt)
    P = "C04/seam/" + space_kind

    def run(api):
        L = api.mod("librdengine")
        script, I = mk_script(api, space_kind)
        lib = recording_lib(api)
        eng = L.LibRDEngine(lib, option=opt, requires_molecules=requires_molecules)
        us_before = {k: script.units_system[k] for k in KINDS}
        out = api.call(lambda: eng.setup(script))
        api.check(P + "/setup_ok", out.ok, "raised %r" % (out.exc,))
        if not out.ok:
            return
        # frame: setting an engine up does not change the caller's script (its units system in particular: the engine works
        # on a copy when it needs molecules)
        for k in KINDS:
            api.check(P + "/script-units-not-changed-by-setup." + k, api.eq(script.units_system[k], us_before[k]))
        fname = "engineexport_initialize_" + space_kind
        calls = [c for c in lib.calls if c[0] == fname]
        api.check(P + "/one_initialisation_call", len(calls) == 1 and len(lib.calls) == 1)
        if len(calls) != 1:
            return
        names = param_names(fname)
        args = calls[0][1]
        api.check(P + "/argument_count", len(args) == len(names))
        if len(args) != len(names):
            return
        a = dict(zip(names, args))
        EU = engine_units(api, I, requires_molecules)
        net, g, n = I["net"], I["g"], I["n"]
        sc = lambda dim: Q.scale(api, EU, dim)
        eq = api.eq
        # sizes
        if space_kind == "grid":
            api.check(P + "/w,h,d", api.and_(eq(cval(a["w"]), g.w), eq(cval(a["h"]), g.h), eq(cval(a["d"]), g.d)))
        else:
            api.check(P + "/n_nodes,n_edges", cval(a["n_nodes"]) == 3 and cval(a["n_edges"]) == 2)
            api.check(P + "/edge_end_points", [a["edge_i"][0], a["edge_i"][1], a["edge_j"][0], a["edge_j"][1]] == [0, 2, 1, 1])
            for k, (i_, j_, sf, ds, eus) in enumerate(g.edges):
                api.check(P + "/edge_surface", eq(api.num(a["edge_sfc"][k]) * sc(SURF), M.si_number(api, sf, eus, SURF)))
                api.check(P + "/edge_distance", eq(api.num(a["edge_dst"][k]) * sc(DIST), M.si_number(api, ds, eus, DIST)))
        api.check(P + "/counts", cval(a["n_species"]) == 2 and cval(a["n_reactions"]) == 2 and cval(a["n_env"]) == 2)
        # state, flags, environments: species-major arrays (grid: one Skolem entry; graph: every entry)
        ks = [api.index("k", 2 * n)] if space_kind == "grid" else list(range(6))
        cs = [api.index("c", n)] if space_kind == "grid" else list(range(3))
        for k in ks:
            api.check(P + "/state_entry", eq(api.num(celem(api, a["mesh_state"], k)) * sc(QTY),
                                             api.num(api.sel(I["st"], k)) * Q.scale(api, I["sys_us"], QTY)))
            api.check(P + "/chemostat_entry", eq(celem(api, a["mesh_chstt"], k), api.sel(I["ch"], k)))
        for c in cs:
            api.check(P + "/environment_entry", eq(celem(api, a["mesh_env"], c), g.env(c)))
            if space_kind != "grid":
                api.check(P + "/node_volume", eq(api.num(celem(api, a["mesh_vol"], c)) * sc(VOL),
                                                 M.si_number(api, g.vols[c], g.node_us[c], VOL)))
        if space_kind == "grid":
            api.check(P + "/cell_volume", eq(api.num(cval(a["mesh_vol"])) * sc(VOL), M.si_number(api, g.vol, g.us, VOL)))
            for ax in "xyz":
                api.check(P + "/boundary_" + ax, eq(cval(a["boundary_conditions_" + ax]), g.bc[ax]))
        # rate constants of the two directed reactions (A + B -> 2 B ; 2 B -> A + B), per environment
        kf, kr, rus = net.rk[0]
        for e in range(2):
            for r, (ev, order) in enumerate(((kf, 2), (kr, 2))):
                exp = env_si(api, ev, net.envs, e, rus, k_dims(order))
                api.check(P + "/rate_constant[env%d,reaction%d]" % (e, r),
                          eq(api.num(a["k"][e * 2 + r]) * sc(k_dims(order)), exp))
        SUB = [[1, 0], [1, 2]]          # sub[s][r]
        STO = [[-1, 1], [1, -1]]
        for s in range(2):
            for r in range(2):
                api.check(P + "/substrate_matrix", a["sub"][s * 2 + r] == SUB[s][r])
                api.check(P + "/stoichiometry_matrix", a["sto"][s * 2 + r] == STO[s][r])
            for e in range(2):
                exp = env_si(api, net.D[s], net.envs, e, net.sp_us[s], DCOEF)
                api.check(P + "/diffusion_coefficient[species%d,env%d]" % (s, e), eq(api.num(a["D"][s * 2 + e]) * sc(DCOEF), exp))
        # times
        tsc = Q.scale(api, I["sc_us"], TIME)
        api.check(P + "/sample_count", eq(cval(a["sample_n"]), I["nt"]))
        j = api.index("j", I["nt"])
        api.check(P + "/sample_time_entry", eq(api.num(celem(api, a["sample_t"], j)) * sc(TIME), api.num(api.sel(I["ts"], j)) * tsc))
        tqs = Q.scale(api, I["tq_us"], TIME)
        api.check(P + "/t_max", eq(api.num(cval(a["t_max"])) * sc(TIME), api.num(I["tmax"]) * tqs))
        api.check(P + "/time_step", eq(api.num(cval(a["time_step"])) * sc(TIME), api.num(I["dt"]) * tqs))
        api.check(P + "/sampling_interval", eq(api.num(cval(a["sampling_interval"])) * sc(TIME), api.num(I["si"]) * tqs))
        api.check(P + "/sampling_policy", eq(cval(a["sampling_policy"]), I["pol"]))
        api.check(P + "/init_state_processing", eq(cval(a["init_state_processing"]), I["mode"]))
        api.check(P + "/seed", eq(cval(a["seed"]), I["seed"]))
        api.check(P + "/option", cval(a["option"]) == opt)
        api.check(P + "/fresh_setup_is_not_complete", not eng.is_complete())

    return Case(cid, run, functions=["LibRDEngine.setup", "LibRDEngine._setup_" + space_kind,
                                     "build_reaction_rate_constant_matrix", "build_substrate_stoechiometric_matrix",
                                     "build_stoechiometric_difference_matrix", "build_diff_coef_environment_matrix",
                                     "make_ctypes_array", "Reaction.split"], max_paths=20000)


def unmarshal_case(requires_molecules):
    opt = "gillespie" if requires_molecules else "euler"
    cid = "seam/unmarshal/%s" % opt
    P = "C04/seam/unmarshal"

    def run(api):
        L = api.mod("librdengine")
        script, I = mk_script(api, "grid")
        lib = recording_lib(api)
        eng = L.LibRDEngine(lib, option=opt, requires_molecules=requires_molecules)
        eng.setup(script)
        n = I["n"]
        N = api.length("N", 0, 3)
        ndata = N * 2 * n
        if api.mode == "sym":
            from vc.pysym.arrays import SymArr
            import z3
            E_data = SymArr.fresh("engine_data", ndata)
            E_t = SymArr.fresh("engine_t", N)

            def fill_data(buf):
                from vc.core.proxies import SInt
                buf.arr = E_data.arr
                lib.seen_len = SInt(buf.n)
                return 0

            def fill_t(buf):
                buf.arr = E_t.arr
                return 0
            ed = lambda k: api.sel(E_data, k)
            et = lambda k: api.sel(E_t, k)
        else:
            vals = api.array("engine_data", ndata)
            tv = api.array("engine_t", N)

            def fill_data(buf):
                lib.seen_len = len(buf)
                for k in range(len(buf)):
                    buf[k] = vals[k]
                return 0

            def fill_t(buf):
                for k in range(len(buf)):
                    buf[k] = tv[k]
                return 0
            ed = lambda k: vals[k]
            et = lambda k: tv[k]
        lib.handlers["engineexport_get_nsamples"] = lambda: N
        lib.handlers["engineexport_get_trajectory"] = fill_data
        lib.handlers["engineexport_get_tsample"] = fill_t
        out = api.call(lambda: eng.get_output())
        api.check(P + "/ok", out.ok, "raised %r" % (out.exc,))
        if not out.ok:
            return
        tr = out.value
        EU = engine_units(api, I, requires_molecules)
        api.check(P + "/buffer_length_is_nsamples*S*n", api.eq(lib.seen_len, ndata))
        api.check(P + "/data_length", api.eq(api.arr_len(tr.data.value), ndata))
        api.check(P + "/times_length", api.eq(api.arr_len(tr.t.value), N))
        for kk in KINDS:
            api.check(P + "/data_reported_in_script_units." + kk, api.eq(tr.data.units.sys[kk], I["sc_us"][kk]))
            api.check(P + "/times_reported_in_script_units." + kk, api.eq(tr.t.units.sys[kk], I["sc_us"][kk]))
            api.check(P + "/data_dim." + kk, api.eq(tr.data.units.dim[kk], QTY[kk]))
        k = api.index("k", ndata)
        api.check(P + "/data_entry", api.eq(Q.si_at(api, tr.data, k), api.num(ed(k)) * Q.scale(api, EU, QTY)))
        j = api.index("j", N)
        api.check(P + "/time_entry", api.eq(Q.si_at(api, tr.t, j), api.num(et(j)) * Q.scale(api, EU, TIME)))
        api.check(P + "/stored_script_seed", api.eq(tr.script.rng_seed, I["seed"]))

    return Case(cid, run, functions=["LibRDEngine.get_output", "LibRDEngine._get_data", "LibRDEngine._get_t_sample",
                                     "LibRDEngine._count_samples", "RDTrajectory.__init__"], max_paths=20000)


# ---------------------------------------------------------------------------
# (i) dictionary readers: which units system a child gets, and what a bare number means in it
UNITS_FORMS = ["absent", "inherit", "default", "explicit"]


def units_entry(api, form, pfx):
    """(dictionary entry or None, expected system given the parent)"""
    U = api.mod("units")
    if form == "absent":
        return None, "parent"
    if form == "inherit":
        return "inherit", "parent"
    if form == "default":
        return "default", "default"
    us = M.mk_system(api, pfx)
    return {"space": us["space"], "time": us["time"], "quantity": us["quantity"]}, us


def expected_system(api, exp, parent):
    U = api.mod("units")
    if exp == "parent":
        return parent
    if exp == "default":
        return U.UnitsSystem()
    return exp


def reader_case(kind):
    cid = "readers/" + kind
    P = "C04/readers/" + kind

    def run(api):
        N = api.mod("rdnetwork")
        G = api.mod("rdgridspace")
        GS = api.mod("rdgraphspace")
        R = api.mod("rdsystem")
        parent = M.mk_system(api, "parent")
        form = UNITS_FORMS[api.choice("form", 4)]
        entry, exp = units_entry(api, form, "own")
        us = expected_system(api, exp, parent)
        v = api.real("v")

        def with_units(d):
            if entry is not None:
                d["units"] = entry
            return d
        if kind == "species":
            o = N.species_from_dict(with_units({"label": "A", "D": v, "density": v}), parent)
            api.check(P + "/D", api.eq(Q.si(api, o.D), M.si_number(api, v, us, DCOEF)))
            api.check(P + "/density", api.eq(Q.si(api, o.density), M.si_number(api, v, us, M.dims_of("density"))))
            got = o.units_system
        elif kind == "reaction":
            o = N.reaction_from_dict(with_units({"eq": "A + B -> C", "k+": v, "k-": v}), parent)
            api.check(P + "/kf", api.eq(Q.si(api, o.kf), M.si_number(api, v, us, k_dims(2))))
            api.check(P + "/kr", api.eq(Q.si(api, o.kr), M.si_number(api, v, us, k_dims(1))))
            got = o.units_system
        elif kind == "network":
            o = N.rdnetwork_from_dict(with_units({"species": [{"label": "A", "D": v}, {"label": "B", "units": "default"}],
                                                  "reactions": [{"eq": "A -> B", "k+": v}]}), parent)
            got = o.units_system
            api.check(P + "/child_species_inherits", api.eq(Q.si(api, o.species[0].D), M.si_number(api, v, us, DCOEF)))
            api.check(P + "/child_reaction_inherits", api.eq(Q.si(api, o.reactions[0].kf), M.si_number(api, v, us, k_dims(1))))
            d = N.UnitsSystem() if hasattr(N, "UnitsSystem") else None
        elif kind == "grid":
            o = G.rdgridspace_from_dict(with_units({"w": 2, "cell_volume": v}), parent)
            api.check(P + "/cell_volume", api.eq(Q.si(api, o.cell_vol), M.si_number(api, v, us, VOL)))
            got = o.units_system
        elif kind == "graph":
            o = GS.rdgraphspace_from_dict(with_units({"type": "graph", "nodes": [{"volume": v}, {"volume": 1, "units": "default"}],
                                                      "edges": [{"nodes": [0, 1], "surface": v, "distance": v}]}), parent)
            got = o.units_system
            api.check(P + "/node_inherits", api.eq(Q.si(api, o.nodes[0].volume), M.si_number(api, v, us, VOL)))
            api.check(P + "/edge_inherits", api.eq(Q.si(api, o.edges[0].surface), M.si_number(api, v, us, SURF)))
            api.check(P + "/edge_distance", api.eq(Q.si(api, o.edges[0].distance), M.si_number(api, v, us, DIST)))
        elif kind == "system":
            o = R.rdsystem_from_dict(with_units({"network": {"species": [{"label": "A", "density": v}], "reactions": []},
                                                 "space": {"w": 1, "cell_volume": v}}), parent)
            got = o.units_system
            api.check(P + "/network_inherits", api.eq(Q.si(api, o.network.species[0].density),
                                                      M.si_number(api, v, us, M.dims_of("density"))))
            api.check(P + "/space_inherits", api.eq(Q.si(api, o.space.cell_vol), M.si_number(api, v, us, VOL)))
        for kk in KINDS:
            api.check(P + "/units_system." + kk, api.eq(got[kk], us[kk]))

    return Case(cid, run, functions=[kind + "_from_dict", "retrive_units_system_from_dict", "process_unitvar_input"],
                max_paths=20000)


def explicit_quantity_case():
    """explicit-unit quantities keep their physical value whatever units system surrounds them"""
    cid = "explicit-quantities"
    P = "C04/" + cid

    def run(api):
        from props.C18 import Txt, symbol
        N = api.mod("rdnetwork")
        U = api.mod("units")
        owner = M.mk_system(api, "owner")
        own = M.mk_system(api, "q")
        v = api.real("v")
        q = U.UnitValue(v, U.Units(own, U.UnitsDimensions(2, -1, 0)))
        sp = N.Species("A", D=q, units_system=owner)
        api.check(P + "/quantity_object", api.eq(Q.si(api, sp.D), Q.si(api, q)))
        txt = api.call(lambda: str(q) if api.mode == "conc" else q.__str__())
        if txt.ok:
            sp2 = api.call(lambda: N.Species("A", D=txt.value, units_system=owner))
            api.check(P + "/quantity_text_accepted", sp2.ok, "raised %r" % (sp2.exc,))
            if sp2.ok:
                api.check(P + "/quantity_text", api.eq(Q.si(api, sp2.value.D), Q.si(api, q)))

    return Case(cid, run, functions=["Species.D (setter)", "process_unitvar_input", "UnitValue.__init__", "parse_unitvalue"],
                max_paths=20000)


CASES = []
for _sp in ("grid", "graph"):
    for _rm in (False, True):
        CASES.append(marshal_case(_sp, _rm))
CASES.append(unmarshal_case(False))
CASES.append(unmarshal_case(True))
for _k in ("species", "reaction", "network", "grid", "graph", "system"):
    CASES.append(reader_case(_k))
CASES.append(explicit_quantity_case())

# the state that reaches the seam when none is given is the default one: its units clauses (density in the network's units x
# cell volume in the space's units, expressed in the requested system) are C13's cases, part of this check as well
from props import C13 as _C13
CASES.append(_C13.species_state_case("dict:e0,default", 2, "grid"))
CASES.append(_C13.species_state_case("dict:e0,default", 2, "graph"))
# ... and the per-entry setters and getters: a bare number is read in the system's own units system, whatever units the state
# array is held in (C13's accessor cases)
CASES.append(_C13.accessor_case("index", "index"))
CASES.append(_C13.accessor_case("label", "tuple", given_state=False))

# exported ODE right-hand side in a requested units system: C01's make_dxdtf cases
from props import C01 as _C01
for _s, _p in (((1, 1), (1, 0)), ((2, 0), (0, 1))):
    CASES.append(_C01.dxdtf_case(_s, _p))


def LATE_CASES():
    """unit independence through coarse-graining: the aggregated state keeps the units it was computed in when it is handed to
    the coarse-grained system (system and network stated in different quantity units): two of C16's cases (C16 imports this
    module, hence listed late)"""
    from props import C16 as _C16
    return [_C16.cg_case((2, 1, 1), 0, 0), _C16.cg_case((1, 1, 3), 0, 1)]
