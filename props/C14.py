"""C14  Initial-state processing yields a valid molecular state with the right totals.

Engine side (engine.cpp through vc/cppsym):
  transposition   SpeciesFirstToMeshFirstArray: out[i*S+s] = in[s*M+i] (Skolem pointwise invariant = for all entries)
  dispatch        engineexport_initialize_grid/_graph hand to Init, per processing mode and engine kind:
                    none / auto+euler      the transposed state unchanged
                    redist / auto+stoch.   GenerateStochasticDistribution(transposed state, M, S, seed)
                    Poisson                entry (cell i, species s) drawn with the real amount of (cell i, species s)
                                           as mean; a zero amount stays zero
                  and the transposed chemostat map; an unknown mode is refused (return code 4)
  redistribution  GenerateStochasticDistribution: every entry of the result is a non-negative integer; a molecule is only
                  added to a cell whose real amount is positive; every iteration of the correction loop changes exactly
                  one entry of that species by one (or nothing) and counts it, so that on exit the species total equals
                  floor(real total) (sum-of-point-updates lemma, stated); the result depends on (state, M, S, seed) only
Termination of the correction loop is C10's known finding.
"""
from vc.core.runner import Case
try:
    import z3
    from vc.cppsym import contracts as K
    from vc.cppsym.interp import Frame, Vec, Ptr, Str, ObjPtr, Obj
except ImportError:
    z3 = None
    from vc.cppsym import names as K
from props import C11

META = {
    "level": "proof",
    "trusted_base": ["clang AST + vc/cppsym", "z3 / cvc5"],
    "assumptions": ["A2: poisson_distribution<int> returns a non-negative integer, normal_distribution a real; draws are a "
                    "deterministic function of the generator state (reproducibility for a given seed)",
                    "sum lemma L_sum (point update of a column sum) is proved in Lean 4 + Mathlib (lemmas/Sums.lean, re-checked on every "
                    "run); hence on exit of the correction loop the total is tot2 -+ delta = floor(real total)",
                    "termination is not part of this check (known finding of C10)"],
}


def inv_transpose(level):
    def inv(I, fr, stage):
        g = I.ghost
        s = I.local_by_name(fr, "s")
        i = I.local_by_name(fr, "i") if level == 2 else z3.IntVal(0)
        out = I.local_by_name(fr, "mesh_first_array")
        S = I.local_by_name(fr, "n_species")
        M = I.local_by_name(fr, "n_meshes")
        if s is None or i is None or out is None or S is None or M is None:
            return [z3.BoolVal(False)]
        visited = z3.Or(s > g["s0"], z3.And(s == g["s0"], i > g["i0"]))
        return [out.n == g["len"], S == g["S"], M == g["M"],
                z3.Implies(visited, z3.Select(out.arr, g["i0"] * g["S"] + g["s0"]) == g["want"])]
    return inv


def transposition_case(kind):
    cid = "SpeciesFirstToMeshFirstArray<%s>/contract" % kind

    def run(api):
        prog = C11.program()
        I = K.make_interp(prog, api.ctx, "C14", loop_inv=dict(K.LOOP_INV))
        S = K._int(I, "n_species", 0)
        M = K._int(I, "n_meshes", 0)
        v = I.fresh_vec("arr", "real" if kind == "double" else "int", S * M)
        s0, i0 = K._int(I, "s0", 0), K._int(I, "i0", 0)
        api.ctx.assume(z3.And(s0 < S, i0 < M))
        I.ghost = {"s0": s0, "i0": i0, "S": S, "M": M, "len": S * M, "want": z3.Select(v.arr, s0 * M + i0)}
        I.loop_inv[("SpeciesFirstToMeshFirstArray", 1)] = inv_transpose(1)
        I.loop_inv[("SpeciesFirstToMeshFirstArray", 2)] = inv_transpose(2)
        fn = [f for f in prog.functions["SpeciesFirstToMeshFirstArray"] if kind in f["type"]["qualType"]][0]
        out = I.call(fn, None, [v, S, M], fn, Frame("top"))
        api.ctx.oblige("C14/SpeciesFirstToMeshFirstArray/length", out.n == S * M)
        api.ctx.oblige("C14/SpeciesFirstToMeshFirstArray/out[cell*S+species]=in[species*M+cell]",
                       z3.Select(out.arr, i0 * S + s0) == z3.Select(v.arr, s0 * M + i0))

    return Case(cid, run, functions=["SpeciesFirstToMeshFirstArray"], conc=False)


def mkvec_case():
    """MkVec copies: out[j] = in[j] for every j < len (the dispatch cases use this contract)"""
    def run(api):
        prog = C11.program()
        for fn in prog.functions["MkVec"]:
            I = K.make_interp(prog, api.ctx, "C14", loop_inv=dict(K.LOOP_INV))
            n = K._int(I, "len", 0)
            kind = "int" if "int *" in fn["type"]["qualType"] else "real"
            buf = Ptr(kind, n, I.fresh_arr("buf", kind), "a")
            j0 = K._int(I, "j0", 0)
            api.ctx.assume(j0 < n)

            def inv(I_, fr, stage, j0=j0, buf=buf, n=n):
                i = I_.local_by_name(fr, "i")
                v = [x for x in fr.locals.values() if isinstance(x, Vec)]
                if i is None or not v:
                    return [z3.BoolVal(False)]
                return [v[0].n == n, z3.Implies(i > j0, z3.Select(v[0].arr, j0) == I_.coerce(z3.Select(buf.arr, j0), v[0].kind))]
            I.loop_inv[("MkVec", 1)] = inv
            out = I.call(fn, None, [buf, n], fn, Frame("top"))
            api.ctx.oblige("C14/MkVec/length", out.n == n)
            api.ctx.oblige("C14/MkVec/out[j]=in[j]", z3.Select(out.arr, j0) == I.coerce(z3.Select(buf.arr, j0), out.kind))
    return Case("MkVec/contract", run, functions=["MkVec<double,double>", "MkVec<int,int>", "MkVec<double,int>"], conc=False)


def redistribution_case():
    """GenerateStochasticDistribution: entry invariants and the species total (partial correctness)"""
    FN = "GenerateStochasticDistribution"
    P = "C14/redistribution"

    def run(api):
        prog = C11.program()
        c = api.ctx
        I = K.make_interp(prog, c, "C14", loop_inv=dict(K.LOOP_INV))
        S = K._int(I, "n_species", 1)
        M = K._int(I, "n_meshes", 1)
        v = I.fresh_vec("mesh_x", "real", M * S)
        seed = K._int(I, "seed")
        s0 = K._int(I, "s0", 0)
        c.assume(s0 < S)
        RA = z3.ArraySort(z3.IntSort(), z3.RealSort())
        PS = z3.Function("colsum_upto", RA, z3.IntSort(), z3.IntSort(), z3.RealSort())   # sum_{i<n} a[i*S+s]
        a_, s_ = z3.Const("a!ps", RA), z3.Int("s!ps")
        c.assume(z3.ForAll([a_, s_], PS(a_, s_, 0) == 0))                 # definition, base
        g = {}

        def unfold(arr, i):                                               # definition, step (ground instance)
            return z3.Implies(i >= 0, PS(arr, s0, i + 1) == PS(arr, s0, i) + z3.Select(arr, i * S + s0))

        def L(fr, nm):
            return I.local_by_name(fr, nm)

        def acc_outer(vec, src):
            def inv(I_, fr, stage):
                t, a, i = L(fr, vec), L(fr, src), L(fr, "i")
                out = [z3.Select(t.arr, s0) == PS(a.arr, s0, i), t.n == S]
                if vec == "tot2_species":
                    e = z3.Select(t.arr, s0)
                    out.append(K.int_valued_fact(e) if stage == "assume" else K.int_valued_goal(e, c))
                return out
            return inv

        def acc_inner(vec, src):
            def inv(I_, fr, stage):
                t, a, i, j = L(fr, vec), L(fr, src), L(fr, "i"), L(fr, "j")
                if stage == "assume":
                    c.assume(unfold(a.arr, i))
                out = [z3.Select(t.arr, s0) == PS(a.arr, s0, z3.If(j > s0, i + 1, i)), t.n == S]
                if vec == "tot2_species":
                    e = z3.Select(t.arr, s0)
                    out.append(K.int_valued_fact(e) if stage == "assume" else K.int_valued_goal(e, c))
                return out
            return inv

        def inv_floor(I_, fr, stage):
            t, i = L(fr, "tot_species"), L(fr, "i")
            tot = PS(v.arr, s0, M)
            return [t.n == S, z3.Select(t.arr, s0) == z3.If(i > s0, z3.ToReal(z3.ToInt(tot)), tot)]

        def inv_diff(I_, fr, stage):
            # from here on every entry of tot_species is a floor (loop 3 is over; the statement proved for the arbitrary
            # species s0 holds for every species), so reads of it may assume an integer witness
            g["floored"] = True
            d, t, t2, i = L(fr, "dtot_species"), L(fr, "tot_species"), L(fr, "tot2_species"), L(fr, "i")
            return [d.n == S, z3.Implies(i > s0, z3.Select(d.arr, s0) == z3.Select(t2.arr, s0) - z3.Select(t.arr, s0))]

        def col_total(fr):
            return PS(L(fr, "mesh_x_sto").arr, s0, M)

        def inv_species(I_, fr, stage):
            t, t2, s = L(fr, "tot_species"), L(fr, "tot2_species"), L(fr, "s")
            return [L(fr, "mesh_x_sto").n == M * S,
                    col_total(fr) == z3.If(s > s0, z3.Select(t.arr, s0), z3.Select(t2.arr, s0))]

        def inv_correction(I_, fr, stage):
            t, t2, s = L(fr, "tot_species"), L(fr, "tot2_species"), L(fr, "s")
            dc, delta, rm = L(fr, "delta_count"), L(fr, "delta"), L(fr, "rm_species")
            moved = z3.If(rm, z3.ToReal(dc), -z3.ToReal(dc))
            return [L(fr, "mesh_x_sto").n == M * S, dc >= 0, dc < delta,
                    col_total(fr) == z3.If(s == s0, z3.Select(t2.arr, s0) - moved,
                                           z3.If(s > s0, z3.Select(t.arr, s0), z3.Select(t2.arr, s0)))]

        def inv_pick(I_, fr, stage):
            if stage == "init":
                g["sto"], g["dc"] = L(fr, "mesh_x_sto").arr, L(fr, "delta_count")
            return [L(fr, "target") >= L(fr, "cumul"), L(fr, "mesh_x_sto").arr == g["sto"], L(fr, "delta_count") == g["dc"],
                    L(fr, "mesh_x_sto").n == M * S]

        I.loop_inv.update({(FN, 1): acc_outer("tot_species", "mesh_x"), (FN, 2): acc_inner("tot_species", "mesh_x"),
                           (FN, 3): inv_floor, (FN, 5): acc_outer("tot2_species", "mesh_x_sto"),
                           (FN, 6): acc_inner("tot2_species", "mesh_x_sto"), (FN, 7): inv_diff, (FN, 8): inv_species,
                           (FN, 9): inv_correction, (FN, 10): inv_pick})
        # entry-wise invariants (assumed at reads, checked at every store; the vectors are created zero-filled)
        def sto_read(I_, fr, e, idx):
            return z3.And(e >= 0, K.int_valued_fact(e), z3.Implies(z3.Select(v.arr, idx) <= 0, e == 0))

        def sto_store(I_, fr, x, idx):
            old = L(fr, "mesh_x_sto")
            s = L(fr, "s")
            i = L(fr, "i")
            if s is not None and i is not None and old is not None:
                # lemma L-sum (point update of a column sum), instance for this store
                c.assume(z3.Implies(z3.And(i >= 0, i < M, s >= 0, s < S),
                                    PS(z3.Store(old.arr, i * S + s, x), s0, M) ==
                                    PS(old.arr, s0, M) + z3.If(s == s0, x - z3.Select(old.arr, i * S + s), 0)))
            return z3.And(x >= 0, K.int_valued_goal(x, c), z3.Implies(z3.Select(v.arr, idx) <= 0, x == 0))
        I.local_read_facts = {(FN, "mesh_x_sto"): sto_read,
                              (FN, "tot_species"): lambda I_, fr, e, idx: (z3.And(e >= 0, K.int_valued_fact(e)) if g.get("floored")
                                                                           else e >= 0),
                              (FN, "totreal_species"): lambda I_, fr, e, idx: e >= 0,
                              (FN, "dtot_species"): lambda I_, fr, e, idx: K.int_valued_fact(e),
                              (FN, "tot2_species"): lambda I_, fr, e, idx: K.int_valued_fact(e)}
        I.local_store_checks = {(FN, "mesh_x_sto"): sto_store,
                                (FN, "tot_species"): lambda I_, fr, x, idx: (z3.And(x >= 0, K.int_valued_goal(x, c)) if g.get("floored")
                                                                             else x >= 0),
                                (FN, "totreal_species"): lambda I_, fr, x, idx: x >= 0,
                                (FN, "dtot_species"): lambda I_, fr, x, idx: K.int_valued_goal(x, c),
                                (FN, "tot2_species"): lambda I_, fr, x, idx: K.int_valued_goal(x, c)}
        I.param_facts = {"mesh_x": lambda e: e >= 0}
        I.int_terms = True
        fn = prog.functions[FN][0]
        out = I.call(fn, None, [v, M, S, seed], fn, Frame("top"))
        c.oblige(P + "/length", out.n == M * S)
        c.oblige(P + "/species-total-is-floor-of-real-total",
                 PS(out.arr, s0, M) == z3.ToReal(z3.ToInt(PS(v.arr, s0, M))))

    return Case("GenerateStochasticDistribution/contract", run, functions=[FN], conc=False, max_paths=6000)


MODES = ["auto", "none", "Poisson", "redist", "floor-or-unknown"]
OPTIONS = ["euler", "tauleap", "gillespie"]

TR = None


def dispatch_case(space, mode, option, bc=("reflecting", "periodical", "reflecting")):
    cid = "dispatch/%s/%s/%s" % (space, mode, option)
    if bc != ("reflecting", "periodical", "reflecting"):
        cid += "/" + "".join(b[0] for b in bc)
    P = "C14/dispatch/%s" % space

    def run(api):
        prog = C11.program()
        c = api.ctx
        I = K.make_interp(prog, c, "C14", loop_inv=dict(K.LOOP_INV))
        fname = "engineexport_initialize_" + space
        fn = prog.functions[fname][0]
        names = [p["name"] for p in prog.params(fn)]
        M = K._int(I, "M", 1)          # replaced by w*h*d for a grid
        S = K._int(I, "S", 1)
        R, E = K._int(I, "R", 0), K._int(I, "E", 1)
        TRf = z3.Function("transposed", z3.ArraySort(z3.IntSort(), z3.RealSort()), z3.IntSort(), z3.IntSort(),
                          z3.ArraySort(z3.IntSort(), z3.RealSort()))
        TRi = z3.Function("transposed_int", z3.ArraySort(z3.IntSort(), z3.IntSort()), z3.IntSort(), z3.IntSort(),
                          z3.ArraySort(z3.IntSort(), z3.IntSort()))
        GSDf = z3.Function("redistributed", z3.ArraySort(z3.IntSort(), z3.RealSort()), z3.IntSort(), z3.IntSort(), z3.IntSort(),
                           z3.ArraySort(z3.IntSort(), z3.RealSort()))

        def stub_tr(I_, args, fr):
            v, S_, M_ = args
            f = TRf if v.kind == "real" else TRi
            return Vec(v.kind, v.n, f(v.arr, S_, M_))

        def stub_gsd(I_, args, fr):
            v, M_, S_, seed_ = args
            return Vec("real", v.n, GSDf(v.arr, M_, S_, seed_))
        def stub_mkvec(I_, args, fr):
            # contract of MkVec (verified in C11): a vector of the n first entries, converted entry-wise
            p_, n_ = args
            if (p_.kind == "real") or (p_.name in ("mesh_chstt", "mesh_env")):
                return Vec(p_.kind, n_, p_.arr)
            conv = z3.Function("as_double_" + p_.name, z3.IntSort(), z3.RealSort())
            j = z3.Int("j!mk")
            return Vec("real", n_, z3.Lambda([j], z3.ToReal(z3.Select(p_.arr, j))))
        I.stubs = {"SpeciesFirstToMeshFirstArray": stub_tr, "GenerateStochasticDistribution": stub_gsd, "MkVec": stub_mkvec}
        init_args = {}

        def on_call(f, this, args):
            if f.get("name") == "Init":
                pn = [p["name"] for p in prog.params(f)]
                init_args.update(dict(zip(pn, args)))
        I.on_call = on_call
        vals = {}
        if space == "grid":
            w, h, d = K._int(I, "w", 1), K._int(I, "h", 1), K._int(I, "d", 1)
            M = w * h * d
        state = Ptr("real", M * S, I.fresh_arr("mesh_state", "real"), "mesh_state")
        c_state0 = state.arr
        if space == "grid":
            vals.update({"w": w, "h": h, "d": d, "mesh_vol": _pos(I, "vol"),
                         "boundary_conditions_x": Str(I.strcode(bc[0])), "boundary_conditions_y": Str(I.strcode(bc[1])),
                         "boundary_conditions_z": Str(I.strcode(bc[2]))})
        else:
            ne = K._int(I, "n_edges", 0)
            vals.update({"n_nodes": M, "n_edges": ne, "edge_i": Ptr("int", ne, I.fresh_arr("edge_i", "int"), "edge_i"),
                         "edge_j": Ptr("int", ne, I.fresh_arr("edge_j", "int"), "edge_j"),
                         "edge_sfc": Ptr("real", ne, I.fresh_arr("edge_sfc", "real"), "edge_sfc"),
                         "edge_dst": Ptr("real", ne, I.fresh_arr("edge_dst", "real"), "edge_dst"),
                         "mesh_vol": Ptr("real", M, I.fresh_arr("mesh_vol", "real"), "mesh_vol")})
        ns = K._int(I, "sample_n", 0)
        seed = K._int(I, "seed")
        chst = Ptr("int", M * S, I.fresh_arr("mesh_chstt", "int"), "mesh_chstt")
        vals.update({"n_species": S, "n_reactions": R, "n_env": E, "mesh_state": state, "mesh_chstt": chst,
                     "mesh_env": Ptr("int", M, I.fresh_arr("mesh_env", "int"), "mesh_env"),
                     "k": Ptr("real", E * R, I.fresh_arr("k", "real"), "k"), "sub": Ptr("int", S * R, I.fresh_arr("sub", "int"), "sub"),
                     "sto": Ptr("int", S * R, I.fresh_arr("sto", "int"), "sto"), "D": Ptr("real", S * E, I.fresh_arr("D", "real"), "D"),
                     "sample_n": ns, "sample_t": Ptr("real", ns, I.fresh_arr("sample_t", "real"), "sample_t"),
                     "sampling_policy": Str(I.strcode("on_iteration")), "sampling_interval": _pos(I, "si"), "t_max": I.fresh("tmax", "real"),
                     "time_step": _pos(I, "dt"), "seed": seed, "init_state_processing": Str(I.strcode(mode if mode in MODES[:4] else "roundish")),
                     "option": Str(I.strcode(option))})
        # mean provenance of the Poisson mode: checked at every store into the local state vector
        def chk_poisson_store(I_, fr, x, idx):
            real_amount = z3.Select(TRf(c_state0, S, M), idx)
            return I_.ghost["poisson_store_fact"](x, idx, real_amount)
        I.ghost = {}

        def poisson_fact(x, idx, real_amount):
            # value stored at idx: either 0 with a non-positive real amount, or the latest draw whose mean is the
            # real amount of that very entry
            tr = [t for t in I.trace if t[0] == "poisson"]
            zero_ok = z3.And(x == 0, real_amount <= 0)
            if not tr:
                return zero_ok
            mean, r = tr[-1][1], tr[-1][2]
            return z3.Or(zero_ok, z3.And(x == z3.ToReal(r), mean == real_amount, real_amount > 0))
        I.ghost["poisson_store_fact"] = poisson_fact
        def inv_unprocessed_tail(I_, fr, stage):
            # entries not yet processed still hold the transposed real amounts
            i = I_.local_by_name(fr, "i")
            mx = I_.local_by_name(fr, "mesh_x")
            if i is None or mx is None:
                return [z3.BoolVal(False)]
            j = z3.Int("j!tail")
            return [mx.n == M * S, z3.ForAll([j], z3.Implies(j >= i, z3.Select(mx.arr, j) == z3.Select(TRf(c_state0, S, M), j)))]
        I.loop_inv[(fname, 1)] = inv_unprocessed_tail
        I.loop_inv[(fname, 2)] = inv_unprocessed_tail
        if mode == "Poisson":
            I.local_store_checks = {(fname, "mesh_x"): chk_poisson_store}
            # instance of the transposition contract at the stored index is needed to relate the two layouts:
            # transposed(a,S,M)[i*S+s] = a[s*M+i]; given as a quantified fact over the stub
            i_, s_ = z3.Int("i!q"), z3.Int("s!q")
            c.assume(z3.ForAll([i_, s_], z3.Implies(z3.And(i_ >= 0, i_ < M, s_ >= 0, s_ < S),
                                                    z3.Select(TRf(c_state0, S, M), i_ * S + s_) == z3.Select(c_state0, s_ * M + i_))))
        args = [vals[n] for n in names]
        I.globals["global_space_type"] = z3.IntVal(0)
        I.globals["global_grid_algo"] = ObjPtr(None, "SimulationAlgorithm3DBase")
        I.globals["global_graph_algo"] = ObjPtr(None, "SimulationAlgorithmGraphBase")
        I.globals["global_algo_freed"] = z3.BoolVal(True)
        # Init itself is verified elsewhere (C11): here it is a stub that records its arguments
        def stub_init(I_, args_, fr):
            return None
        ret = I.call_with_method_stub(fn, args, "Init") if hasattr(I, "call_with_method_stub") else I.call(fn, None, args, fn, Frame("top"))
        stochastic = option in ("tauleap", "gillespie")
        if mode not in MODES[:4]:
            c.oblige(P + "/unknown-mode-refused", ret == 4)
            return
        c.oblige(P + "/accepted", ret == 0)
        x0 = init_args.get("mesh_x0")
        ch = init_args.get("mesh_chstt")
        if x0 is None or ch is None:
            c.oblige(P + "/Init-called", z3.BoolVal(False))
            return
        c.oblige(P + "/chemostat-map-transposed", z3.And(ch.n == M * S, ch.arr == TRi(chst.arr, S, M)))
        c.oblige(P + "/state-length", x0.n == M * S)
        T = TRf(c_state0, S, M)
        if mode == "none" or (mode == "auto" and not stochastic):
            c.oblige(P + "/state-passed-through-unchanged", x0.arr == T)
        elif mode == "redist" or (mode == "auto" and stochastic):
            c.oblige(P + "/state-is-the-redistribution-of-the-transposed-state-with-the-script-seed",
                     x0.arr == GSDf(T, M, S, seed))
        c.oblige(P + "/seed-forwarded", init_args.get("seed") == seed)
        # every other argument reaches the parameter of the same name (argument order at the Init call site)
        j0 = K._int(I, "j0", 0)
        for nm, v in init_args.items():
            src = {"t_samples": "sample_t"}.get(nm, nm)
            if nm in ("mesh_x0", "mesh_chstt", "seed", "sampling_policy_code") or src not in vals:
                continue
            given = vals[src]
            if isinstance(given, Ptr):
                if not isinstance(v, Vec):
                    c.oblige(P + "/forwarded/%s" % nm, z3.BoolVal(False))
                    continue
                c.oblige(P + "/forwarded/%s" % nm, z3.And(v.n == given.n, z3.Implies(j0 < given.n,
                         z3.Select(v.arr, j0) == I.coerce(z3.Select(given.arr, j0), v.kind))))
            elif z3.is_expr(given) and z3.is_expr(v):
                c.oblige(P + "/forwarded/%s" % nm, I.coerce(v, "real") == I.coerce(given, "real"))
        if space == "grid" and isinstance(init_args.get("boundary_conditions"), Vec):
            b = init_args["boundary_conditions"]
            c.oblige(P + "/forwarded/boundary_conditions (x, y, z order)",
                     z3.And(b.n == 3, *[z3.Select(b.arr, _k) == (1 if bc[_k] == "periodical" else 0) for _k in range(3)]))

    return Case(cid, run, functions=["engineexport_initialize_" + space], conc=False, max_paths=4000)


def _pos(I, nm):
    z = I.fresh(nm, "real")
    I.c.assume(z > 0)
    return z


def battery_step(tier, seed):
    """concrete runs of the engine built from the working tree (ASan+UBSan): layout of the processed initial state"""
    from vc.cppsym.replay import Battery
    b = Battery()
    out = {"name": "initial-state battery", "violations": [], "undecided": [], "runs": 0,
           "bounded": "scenario init-state-layout x 4 modes x 2 stochastic engines x 2 space types (+ sub-molecule-total) "
                      "under ASan+UBSan+_GLIBCXX_ASSERTIONS"}
    try:
        if not b.build():
            out["crash"] = "driver does not build: " + b.build_log[-800:]
            return out
        seen = set()
        for sc in ("init-state-layout", "sub-molecule-total"):
            for mode in ("auto", "none", "Poisson", "redist"):
                for e in ("gillespie", "tauleap") + (("euler",) if mode in ("redist", "Poisson") else ()):
                    for sp in ("grid", "graph"):
                        for sd in ([1 + seed] if tier == "quick" else [1 + seed, 2 + seed, 3 + seed, 4 + seed]):
                            if sc == "sub-molecule-total" and (mode, e) not in (("redist", "gillespie"), ("auto", "tauleap")):
                                continue
                            r = b.run(sc, e, sp, "on_t_sample", mode, sd, timeout=10)
                            out["runs"] += 1
                            if r["status"] in ("crash", "hang"):
                                sig = "hang" if r["status"] == "hang" else ("initial-state-layout" if "init-state-layout" in r["detail"]
                                                                           else C11._signature(r))
                                if (sig, mode) in seen:
                                    continue
                                seen.add((sig, mode))
                                out["violations"].append({"obligation": "C14/sanitizer/%s" % sig, "inputs": {"scenario": r["cmd"]},
                                                          "status": r["status"], "detail": r["detail"][-600:]})
    finally:
        b.close()
    return out


def link_replay(oid, extra):
    if "engineexport_initialize_" not in oid:
        return None
    for e in extra:
        for v in e.get("violations", []):
            if v["obligation"].endswith("initial-state-layout"):
                return {"inputs": v["inputs"], "failed": [oid], "how": "engine built from the working tree, scenario init-state-layout",
                        "detail": v["detail"][-300:]}
    return None


from vc.core.leanstep import lean_step as _lean_step
EXTRA = [battery_step, _lean_step("Sums.lean", "C14", ["L_sum"])]
from props.C08 import seed_case as _seed_case
CASES = [_seed_case("C14")]       # reproducibility for a given seed starts with the script keeping the seed it was given
if z3 is not None:
    CASES.append(transposition_case("double"))
    CASES.append(transposition_case("int"))
    CASES.append(mkvec_case())
    CASES.append(redistribution_case())
    for _sp in ("grid", "graph"):
        for _m, _o in (("none", "gillespie"), ("auto", "euler"), ("auto", "tauleap"), ("auto", "gillespie"), ("redist", "euler"),
                       ("Poisson", "gillespie"), ("floor-or-unknown", "euler")):
            CASES.append(dispatch_case(_sp, _m, _o))
