"""C12  Dictionary, JSON and file round-trips preserve the model.

Dictionary layer (symbolic, vc/pysym on the real *_to_dict / *_from_dict): for networks (per-environment
dictionaries, unit systems at network / species / reaction level), grids, graphs (nodes and edges with their own
units), systems (explicit state and chemostat map) and scripts (every parameter), with symbolic numbers and unit
systems:     from_dict(to_dict(x)) has the same physical content as x (quantities compared in SI),
             to_dict(from_dict(to_dict(x))) == to_dict(x)  (leaf by leaf).
Quantities travel as the text str(UnitValue) and come back through parse_unitvalue (token strings with symbolic
number atoms, C18's machinery).
JSON text and file layers (json.dumps/loads, save_*/load_* with nested files, relative paths, external array files,
trajectories in both storage modes) cannot be executed on symbolic values (the JSON encoder and numpy's file format are C
code): they are checked on concrete random models, a bounded stand-in (labelled as such).
Key aliases and defaults of the readers: C04's reader cases and C20's exhaustive alias enumeration are part of this check.
"""
from vc.core.runner import Case
from vc.core.api import KINDS
from spec import quant as Q
from spec import model as M

META = {
    "level": "proof",
    "trusted_base": ["vc/pysym (token strings for quantity text)", "z3 / cvc5"],
    "assumptions": ["structure (numbers of species, reactions, environments, nodes, edges, cells) fixed per case, numbers and unit "
                    "systems symbolic", "JSON / file layers: concrete random models only (bounded stand-in)",
                    "A1 for numbers inside the dictionary layer; the text of a float is exact (repr round-trip of Python floats)"],
}


# --------------------------------------------------------------------------- content comparison
def same_system(api, P, a, b, what):
    for k in KINDS:
        api.check(P + "/%s.units.%s" % (what, k), api.eq(a[k], b[k]))


def same_quantity(api, P, a, b, what):
    """two UnitValues (or per-environment dictionaries of them) denote the same physical quantity"""
    if isinstance(a, dict) or isinstance(b, dict):
        ok = isinstance(a, dict) and isinstance(b, dict) and sorted(a) == sorted(b)
        api.check(P + "/%s.keys" % what, ok)
        if ok:
            for k in a:
                same_quantity(api, P, a[k], b[k], "%s[%s]" % (what, k))
        return
    api.check(P + "/%s (SI)" % what, api.eq(Q.si(api, a), Q.si(api, b)))
    api.check(P + "/%s dimensions" % what, Q.dims_equal(api, a.units, b.units))


def same_flag(api, P, a, b, what):
    if isinstance(a, dict) or isinstance(b, dict):
        ok = isinstance(a, dict) and isinstance(b, dict) and sorted(a) == sorted(b)
        api.check(P + "/%s.keys" % what, ok)
        if ok:
            for k in a:
                api.check(P + "/%s[%s]" % (what, k), api.eq(a[k], b[k]))
        return
    api.check(P + "/" + what, api.eq(a, b))


def same_network(api, P, a, b):
    api.check(P + "/counts", len(a.species) == len(b.species) and len(a.reactions) == len(b.reactions)
              and list(a.environments) == list(b.environments))
    same_system(api, P, a.units_system, b.units_system, "network")
    for k, (x, y) in enumerate(zip(a.species, b.species)):
        api.check(P + "/species%d.label" % k, x.label == y.label)
        same_quantity(api, P, x.D, y.D, "species%d.D" % k)
        same_quantity(api, P, x.density, y.density, "species%d.density" % k)
        same_flag(api, P, x.chstt, y.chstt, "species%d.chstt" % k)
        same_system(api, P, x.units_system, y.units_system, "species%d" % k)
    for k, (x, y) in enumerate(zip(a.reactions, b.reactions)):
        api.check(P + "/reaction%d.label" % k, x.label == y.label)
        labels = [sp.label for sp in a.species]
        api.check(P + "/reaction%d.stoichiometry" % k, list(x.ssto(labels)) == list(y.ssto(labels)) and
                  list(x.psto(labels)) == list(y.psto(labels)))
        same_quantity(api, P, x.kf, y.kf, "reaction%d.kf" % k)
        same_quantity(api, P, x.kr, y.kr, "reaction%d.kr" % k)
        same_system(api, P, x.units_system, y.units_system, "reaction%d" % k)


def same_grid(api, P, a, b):
    api.check(P + "/shape", api.and_(api.eq(a.w, b.w), api.and_(api.eq(a.h, b.h), api.eq(a.d, b.d))))
    same_quantity(api, P, a.cell_vol, b.cell_vol, "cell_volume")
    api.check(P + "/boundary_conditions", dict(a.get_boundary_conditions()) == dict(b.get_boundary_conditions()))
    same_system(api, P, a.units_system, b.units_system, "grid")


def same_graph(api, P, a, b):
    api.check(P + "/counts", len(a.nodes) == len(b.nodes) and len(a.edges) == len(b.edges))
    same_system(api, P, a.units_system, b.units_system, "graph")
    for k, (x, y) in enumerate(zip(a.nodes, b.nodes)):
        same_quantity(api, P, x.volume, y.volume, "node%d.volume" % k)
        api.check(P + "/node%d.environment" % k, api.eq(x.environment, y.environment))
        same_system(api, P, x.units_system, y.units_system, "node%d" % k)
    for k, (x, y) in enumerate(zip(a.edges, b.edges)):
        api.check(P + "/edge%d.ends" % k, api.and_(api.eq(x.i, y.i), api.eq(x.j, y.j)))
        same_quantity(api, P, x.surface, y.surface, "edge%d.surface" % k)
        same_quantity(api, P, x.distance, y.distance, "edge%d.distance" % k)
        same_system(api, P, x.units_system, y.units_system, "edge%d" % k)


def deep_equal(api, P, a, b, what="dict"):
    """leaf-by-leaf equality of two dictionary forms"""
    if isinstance(a, dict) or isinstance(b, dict):
        ok = isinstance(a, dict) and isinstance(b, dict) and sorted(a) == sorted(b)
        api.check(P + "/again/%s: same keys" % what, ok, "%r / %r" % (sorted(a) if isinstance(a, dict) else a, sorted(b) if isinstance(b, dict) else b))
        if ok:
            for k in a:
                deep_equal(api, P, a[k], b[k], "%s.%s" % (what, k))
        return
    if isinstance(a, (list, tuple)) or isinstance(b, (list, tuple)):
        ok = isinstance(a, (list, tuple)) and isinstance(b, (list, tuple)) and len(a) == len(b)
        api.check(P + "/again/%s: same length" % what, ok)
        if ok:
            for k, (x, y) in enumerate(zip(a, b)):
                deep_equal(api, P, x, y, "%s[%d]" % (what, k))
        return
    api.check(P + "/again/%s" % what, a == b)


# --------------------------------------------------------------------------- dictionary layer
NET_SHAPES = [("scalar", "scalar", "scalar"), ("dict:e0,default", "dict:e1", "dict:e0,e1")]


def network_case(k):
    dens, chst, D = NET_SHAPES[k]
    cid = "dict/network/%d" % k
    P = "C12/network"

    def run(api):
        N = api.mod("rdnetwork")
        net = M.mk_network(api, S=2, E=2, dens_shapes=[dens, "scalar"], chst_shapes=[chst, "scalar"], D_shapes=[D, "scalar"],
                           reactions=[("A + B -> 2 B", "scalar", D), (" -> A", dens, "scalar")], species_units=True)
        out = api.call(lambda: N.rdnetwork_to_dict(net.obj))
        api.check(P + "/to_dict-ok", out.ok, "raised %r" % (out.exc,))
        if not out.ok:
            return
        back = api.call(lambda: N.rdnetwork_from_dict(out.value))
        api.check(P + "/from_dict-ok", back.ok, "raised %r" % (back.exc,))
        if not back.ok:
            return
        same_network(api, P, net.obj, back.value)
        deep_equal(api, P, N.rdnetwork_to_dict(back.value), out.value)

    return Case(cid, run, functions=["rdnetwork_to_dict", "rdnetwork_from_dict", "species_to_dict", "species_from_dict",
                                     "reaction_to_dict", "reaction_from_dict", "format_unitvar_for_save"], max_paths=20000)


def grid_case():
    P = "C12/grid"

    def run(api):
        G = api.mod("rdgridspace")
        SP = api.mod("rdspace")
        g = M.Grid()
        g.us = M.mk_system(api, "gus")
        envs = [api.int("env%d" % k, 0, 1) for k in range(6)]
        g.env = lambda i: envs[i]
        bc = {ax: api.enum("bc" + ax, "bc", ["reflecting", "periodical"]) for ax in ("x", "y", "z")}
        g.obj = G.RDGridSpace(w=2, h=3, d=1, cell_env=list(envs), cell_vol=api.real("vol", positive=True), boundary_conditions=bc,
                              units_system=g.us)
        out = api.call(lambda: G.rdgridspace_to_dict(g.obj))
        api.check(P + "/to_dict-ok", out.ok, "raised %r" % (out.exc,))
        if not out.ok:
            return
        back = api.call(lambda: SP.rdspace_from_dict(out.value))
        api.check(P + "/from_dict-ok (dispatch on type)", back.ok, "raised %r" % (back.exc,))
        if not back.ok:
            return
        same_grid(api, P, g.obj, back.value)
        for i in range(6):
            api.check(P + "/cell_env[%d]" % i, api.eq(back.value.get_cell_env_array()[i], g.env(i)))
        deep_equal(api, P, G.rdgridspace_to_dict(back.value), out.value)

    return Case("dict/grid", run, functions=["rdgridspace_to_dict", "rdgridspace_from_dict", "rdspace_from_dict"], max_paths=20000)


def graph_case(own_nodes, own_edges):
    cid = "dict/graph/own-units-nodes%s-edges%s" % ("".join(map(str, own_nodes)) or "-", "".join(map(str, own_edges)) or "-")
    P = "C12/graph"

    def run(api):
        GS = api.mod("rdgraphspace")
        SP = api.mod("rdspace")
        g = M.mk_graph(api, N=3, edges=((0, 1), (2, 1)), E=2, own_units_nodes=own_nodes, own_units_edges=own_edges)
        out = api.call(lambda: GS.rdgraphspace_to_dict(g.obj))
        api.check(P + "/to_dict-ok", out.ok, "raised %r" % (out.exc,))
        if not out.ok:
            return
        back = api.call(lambda: SP.rdspace_from_dict(out.value))
        api.check(P + "/from_dict-ok (dispatch on type)", back.ok, "raised %r" % (back.exc,))
        if not back.ok:
            return
        same_graph(api, P, g.obj, back.value)
        deep_equal(api, P, GS.rdgraphspace_to_dict(back.value), out.value)

    return Case(cid, run, functions=["rdgraphspace_to_dict", "rdgraphspace_from_dict", "rdgraphspacenode_to_dict",
                                     "rdgraphspaceedge_to_dict", "rdspace_from_dict"], max_paths=20000)


def _script(api, space_kind):
    """script over a 2-species, 2-environment network; grid 2x1x1 or a 3-node graph; everything else symbolic"""
    from props.C04 import POLICIES, MODES
    R = api.mod("rdsystem")
    S = api.mod("rdscript")
    G = api.mod("rdgridspace")
    E = 2
    net = M.mk_network(api, S=2, E=E, D_shapes=["scalar", "dict:e0,default"],
                       reactions=[("A + B -> 2 B", "scalar", "dict:e1,default")], species_units=True)
    if space_kind == "grid":
        g = M.Grid()
        g.us = M.mk_system(api, "gus")
        envs = [api.int("env%d" % k, 0, 1) for k in range(2)]
        g.obj = G.RDGridSpace(w=2, h=1, d=1, cell_env=list(envs), cell_vol=api.real("vol", positive=True), units_system=g.us)
        n = 2
    else:
        g = M.mk_graph(api, N=3, edges=((0, 1), (2, 1)), E=E, own_units_nodes=(0,), own_units_edges=())
        n = 3
    sys_us = M.mk_system(api, "sys")
    st = api.array("st", 2 * n)
    ch = [api.int("ch%d" % k, 0, 1) for k in range(2 * n)]
    system = R.RDSystem(net.obj, g.obj, state=st, chemostats=ch, units_system=sys_us)
    sc_us = M.mk_system(api, "scr")
    ts = api.array("ts", 3)
    dt, tmax, si = api.real("dt", positive=True), api.real("tmax", positive=True), api.real("sint", positive=True)
    seed = api.int("seed", 0, 2**31 - 1)
    pol = api.enum("policy", "policy", POLICIES)
    mode = api.enum("mode", "mode", MODES)
    script = S.RDScript(system, ts, time_step=dt, t_max=tmax, sampling_policy=pol, sampling_interval=si,
                        rng_seed=seed, init_state_processing=mode, units_system=sc_us)
    return script, dict(n=n)


def system_case(space_kind):
    P = "C12/system/" + space_kind

    def run(api):
        R = api.mod("rdsystem")
        script, info = _script(api, space_kind)
        system = script.system
        out = api.call(lambda: R.rdsystem_to_dict(system))
        api.check(P + "/to_dict-ok", out.ok, "raised %r" % (out.exc,))
        if not out.ok:
            return
        back = api.call(lambda: R.rdsystem_from_dict(out.value))
        api.check(P + "/from_dict-ok", back.ok, "raised %r" % (back.exc,))
        if not back.ok:
            return
        b = back.value
        same_network(api, P, system.network, b.network)
        (same_grid if space_kind == "grid" else same_graph)(api, P, system.space, b.space)
        same_system(api, P, system.units_system, b.units_system, "system")
        n = info["n"]
        api.check(P + "/state-length", len(b.state) == 2 * n and len(b.chemostats) == 2 * n)
        for k in range(2 * n) if isinstance(n, int) else ():
            api.check(P + "/state[%d] (SI)" % k, api.eq(Q.si_at(api, b.state, k), Q.si_at(api, system.state, k)))
            api.check(P + "/chemostats[%d]" % k, api.eq(b.chemostats[k], system.chemostats[k]))
        deep_equal(api, P, R.rdsystem_to_dict(b), out.value)

    return Case("dict/system/" + space_kind, run, functions=["rdsystem_to_dict", "rdsystem_from_dict", "unitarray_to_dict",
                                                             "unitarray_from_dict"], max_paths=20000)


def script_case(space_kind):
    P = "C12/script/" + space_kind

    def run(api):
        S = api.mod("rdscript")
        script, info = _script(api, space_kind)
        out = api.call(lambda: S.rdscript_to_dict(script))
        api.check(P + "/to_dict-ok", out.ok, "raised %r" % (out.exc,))
        if not out.ok:
            return
        back = api.call(lambda: S.rdscript_from_dict(out.value))
        api.check(P + "/from_dict-ok", back.ok, "raised %r" % (back.exc,))
        if not back.ok:
            return
        b = back.value
        same_system(api, P, script.units_system, b.units_system, "script")
        same_quantity(api, P, script.time_step, b.time_step, "time_step")
        same_quantity(api, P, script.t_max, b.t_max, "t_max")
        same_quantity(api, P, script.sampling_interval, b.sampling_interval, "sampling_interval")
        api.check(P + "/sampling_policy", api.eq(b.sampling_policy, script.sampling_policy))
        api.check(P + "/init_state_processing", api.eq(b.init_state_processing, script.init_state_processing))
        api.check(P + "/rng_seed", api.eq(b.rng_seed, script.rng_seed))
        deep_equal(api, P, S.rdscript_to_dict(b), out.value)

    return Case("dict/script/" + space_kind, run, functions=["rdscript_to_dict", "rdscript_from_dict"], max_paths=20000)


# --------------------------------------------------------------------------- JSON text and file layers (concrete)
def _content_script(api, P, a, b, n, space_kind):
    same_network(api, P, a.system.network, b.system.network)
    (same_grid if space_kind == "grid" else same_graph)(api, P, a.system.space, b.system.space)
    same_system(api, P, a.system.units_system, b.system.units_system, "system")
    api.check(P + "/state-length", len(b.system.state) == 2 * n and len(b.system.chemostats) == 2 * n)
    for k in range(2 * n):
        api.check(P + "/state[%d] (SI)" % k, api.eq(Q.si_at(api, b.system.state, k), Q.si_at(api, a.system.state, k)))
        api.check(P + "/chemostats[%d]" % k, api.eq(b.system.chemostats[k], a.system.chemostats[k]))
    same_system(api, P, a.units_system, b.units_system, "script")
    same_quantity(api, P, a.time_step, b.time_step, "time_step")
    same_quantity(api, P, a.t_max, b.t_max, "t_max")
    same_quantity(api, P, a.sampling_interval, b.sampling_interval, "sampling_interval")
    api.check(P + "/t_sample", len(a.t_sample) == len(b.t_sample) and
              all(api.eq(Q.si_at(api, a.t_sample, k), Q.si_at(api, b.t_sample, k)) for k in range(len(a.t_sample))))
    api.check(P + "/sampling_policy", b.sampling_policy == a.sampling_policy)
    api.check(P + "/init_state_processing", b.init_state_processing == a.init_state_processing)
    api.check(P + "/rng_seed", b.rng_seed == a.rng_seed)
    if api.mode == "conc":
        # the text of a number is exact (shortest round-trip representation): same units => bit-identical values
        for nm in ("time_step", "t_max", "sampling_interval"):
            x, y = getattr(a, nm), getattr(b, nm)
            if str(x.units) == str(y.units):
                api.check(P + "/%s: exact value" % nm, float(x.value) == float(y.value), "%r became %r" % (x.value, y.value))
        for k, (x, y) in enumerate(zip(a.system.network.species, b.system.network.species)):
            if not isinstance(x.D, dict) and str(x.D.units) == str(y.D.units):
                api.check(P + "/species%d.D: exact value" % k, float(x.D.value) == float(y.D.value), "%r became %r" % (x.D.value, y.D.value))
        if hasattr(a.system.space, "cell_vol") and str(a.system.space.cell_vol.units) == str(b.system.space.cell_vol.units):
            api.check(P + "/cell_volume: exact value", float(a.system.space.cell_vol.value) == float(b.system.space.cell_vol.value))


def json_case(space_kind):
    P = "C12/json/" + space_kind

    def run(api):
        import json
        S = api.mod("rdscript")
        script, info = _script(api, space_kind)
        out = api.call(lambda: S.rdscript_to_dict(script))
        api.check(P + "/to_dict-ok", out.ok, "raised %r" % (out.exc,))
        if not out.ok:
            return
        txt = api.call(lambda: json.dumps(out.value))
        api.check(P + "/dictionary-is-JSON-serialisable", txt.ok, "raised %r" % (txt.exc,))
        if not txt.ok:
            return
        back = api.call(lambda: S.rdscript_from_dict(json.loads(txt.value)))
        api.check(P + "/from_dict(json)-ok", back.ok, "raised %r" % (back.exc,))
        if back.ok:
            _content_script(api, P, script, back.value, info["n"], space_kind)
            api.check(P + "/again: same JSON text", json.dumps(S.rdscript_to_dict(back.value), sort_keys=True) ==
                      json.dumps(out.value, sort_keys=True))

    return Case("json/script/" + space_kind, run, functions=["rdscript_to_dict", "rdscript_from_dict", "json"], sym=False,
                random_runs=40, bounded="40 random models per run (concrete), through json.dumps / json.loads")


def files_case(space_kind):
    P = "C12/files/" + space_kind

    def run(api):
        import json
        import os
        import shutil
        import tempfile
        import numpy as np
        S = api.mod("rdscript")
        R = api.mod("rdsystem")
        N = api.mod("rdnetwork")
        script, info = _script(api, space_kind)
        td = tempfile.mkdtemp(prefix="verif_c12_")
        cwd = os.getcwd()
        try:
            # (1) save / load of each level
            for name, save, load, obj in (("network", N.save_rdnetwork, N.load_rdnetwork, script.system.network),
                                          ("system", R.save_rdsystem, R.load_rdsystem, script.system),
                                          ("script", S.save_rdscript, S.load_rdscript, script)):
                path = os.path.join(td, name + ".json")
                r = api.call(lambda: save(obj, path))
                api.check(P + "/save_%s-ok" % name, r.ok, "raised %r" % (r.exc,))
                if not r.ok:
                    continue
                b = api.call(lambda: load(path))
                api.check(P + "/load_%s-ok" % name, b.ok, "raised %r" % (b.exc,))
                if not b.ok:
                    continue
                if name == "network":
                    same_network(api, P + "/network-file", obj, b.value)
                elif name == "system":
                    same_network(api, P + "/system-file", obj.network, b.value.network)
                    for k in range(2 * info["n"]):
                        api.check(P + "/system-file/state[%d]" % k, api.eq(Q.si_at(api, b.value.state, k), Q.si_at(api, obj.state, k)))
                else:
                    _content_script(api, P + "/script-file", obj, b.value, info["n"], space_kind)
            # (2) multi-file layout with relative paths and an external array file, read from another working directory
            sub = os.path.join(td, "model", "parts")
            os.makedirs(sub)
            dsys = R.rdsystem_to_dict(script.system)
            dnet = dsys["network"]
            with open(os.path.join(sub, "net.json"), "w", encoding="utf-8") as f:
                json.dump(dnet, f)
            dsys["network"] = "parts/net.json"
            if isinstance(dsys.get("state"), dict):
                np.save(os.path.join(sub, "state.npy"), np.array(dsys["state"]["value"], dtype=float))
                dsys["state"] = {"value": "parts/state.npy", "units": dsys["state"]["units"]}
            with open(os.path.join(td, "model", "sys.json"), "w", encoding="utf-8") as f:
                json.dump(dsys, f)
            dsc = S.rdscript_to_dict(script)
            dsc["system"] = "model/sys.json"
            with open(os.path.join(td, "script_multi.json"), "w", encoding="utf-8") as f:
                json.dump(dsc, f)
            os.chdir(os.path.join(td, "model"))          # not the directory the relative paths are written against
            b = api.call(lambda: S.load_rdscript(os.path.join(td, "script_multi.json")))
            api.check(P + "/multi-file-layout-with-relative-paths-ok", b.ok, "raised %r" % (b.exc,))
            if b.ok:
                _content_script(api, P + "/multi-file", script, b.value, info["n"], space_kind)
            # (3) hand-written layout: bare numbers, the nested network file states no units and inherits the system's
            os.chdir(cwd)
            us = M.mk_system(api, "hand")
            v = api.real("hv", positive=True)
            hand = os.path.join(td, "hand")
            os.makedirs(os.path.join(hand, "net"))
            with open(os.path.join(hand, "net", "network.json"), "w", encoding="utf-8") as f:
                json.dump({"species": [{"label": "A", "density": v, "D": v}], "reactions": [{"eq": "A -> ", "k+": v}]}, f)
            with open(os.path.join(hand, "system.json"), "w", encoding="utf-8") as f:
                json.dump({"units": {"space": us["space"], "time": us["time"], "quantity": us["quantity"]},
                           "network": "net/network.json", "space": {"w": 1, "cell_volume": v}}, f)
            os.chdir(td)
            h = api.call(lambda: R.load_rdsystem(os.path.join(hand, "system.json")))
            os.chdir(cwd)
            api.check(P + "/hand-written-layout-ok", h.ok, "raised %r" % (h.exc,))
            if h.ok:
                hs = h.value
                api.check(P + "/nested-network-file-inherits-the-system-units/density",
                          api.eq(Q.si(api, hs.network.species[0].density), M.si_number(api, v, us, M.dims_of("density"))))
                api.check(P + "/nested-network-file-inherits-the-system-units/D",
                          api.eq(Q.si(api, hs.network.species[0].D), M.si_number(api, v, us, M.dims_of("D"))))
                api.check(P + "/nested-network-file-inherits-the-system-units/cell_volume",
                          api.eq(Q.si(api, hs.space.cell_vol), M.si_number(api, v, us, M.dims_of("volume"))))
        finally:
            os.chdir(cwd)
            shutil.rmtree(td, ignore_errors=True)

    return Case("files/" + space_kind, run, functions=["save_rdnetwork", "load_rdnetwork", "save_rdsystem", "load_rdsystem",
                                                        "save_rdscript", "load_rdscript", "get_path_with_base", "get_base_path",
                                                        "unitarray_from_dict (external file)"], sym=False,
                random_runs=10, bounded="10 random models per run (concrete), temporary directory")


def trajectory_case(api):
    """save_rdtrajectory / load_rdtrajectory in both storage modes (real engine, concrete)"""
    import os
    import shutil
    import tempfile
    import numpy as np
    import strengths as st
    from strengths import rdoutput as O
    P = "C12/trajectory"
    us = st.UnitsSystem(space="nm", time="ms", quantity="molecule")
    net = st.RDNetwork([st.Species("A", density={"e0": 3.0, "e1": "2 molecule/µm3"}, D=1.5, units_system=us), st.Species("B", D="3 nm2/s")],
                       [st.Reaction("A -> B", kf=0.3, kr={"e0": 0.1})], environments=["e0", "e1"])
    grid = st.RDGridSpace(w=2, h=2, d=1, cell_env=[0, 1, 1, 0], cell_vol="2 µm3", boundary_conditions={"x": "periodical"})
    script = st.RDScript(st.RDSystem(net, grid), t_sample=[0, 0.5, 1.0], time_step=0.01, rng_seed=11, init_state_processing="none",
                         sampling_policy="on_t_sample", units_system=st.UnitsSystem(time="min"))
    tr = st.simulate_script(script, st.engine_collection.euler_engine())
    td = tempfile.mkdtemp(prefix="verif_c12_")
    cwd = os.getcwd()
    try:
        for separate in (True, False):
            path = os.path.join(td, "out_%s" % separate)
            r = api.call(lambda: O.save_rdtrajectory(tr, path, separate_data=separate))
            api.check(P + "/save-ok (separate_data=%s)" % separate, r.ok, "raised %r" % (r.exc,))
            if not r.ok:
                continue
            os.chdir(td)
            b = api.call(lambda: O.load_rdtrajectory(path + ".json"))
            os.chdir(cwd)
            api.check(P + "/load-ok (separate_data=%s)" % separate, b.ok, "raised %r" % (b.exc,))
            if not b.ok:
                continue
            t2 = b.value
            api.check(P + "/data (separate_data=%s)" % separate, np.array_equal(np.array(t2.data.value), np.array(tr.data.value))
                      and str(t2.data.units) == str(tr.data.units))
            api.check(P + "/times (separate_data=%s)" % separate, np.array_equal(np.array(t2.t.value), np.array(tr.t.value))
                      and str(t2.t.units) == str(tr.t.units))
            api.check(P + "/script-and-engine (separate_data=%s)" % separate,
                      t2.script.rng_seed == tr.script.rng_seed and t2.script.init_state_processing == tr.script.init_state_processing
                      and t2.engine_description == tr.engine_description and t2.engine_option == tr.engine_option)
        # a trajectory whose own system is not its script's system (what un-coarse-graining returns: the fine grid next to
        # the script of the coarse-grained graph): each is written from, and read back into, its own field
        from strengths.coarsegrain import coarsegrain_system, uncoarsegrain_trajectory
        from strengths.rdsystem import rdsystem_to_dict
        from strengths.rdscript import rdscript_to_dict
        fine = st.RDSystem(net, st.RDGridSpace(w=4, h=1, d=1, cell_env=[0, 0, 1, 1], cell_vol=2, units_system=us), units_system=us)
        cgmap = [0, 0, 1, 1]
        coarse = coarsegrain_system(fine, cgmap)
        tcg = st.UnitArray([0, 1, 2], "min")
        cgscript = st.RDScript(system=coarse, t_sample=tcg, time_step=0.01, rng_seed=7, units_system=us)
        ncg = len(coarse.state.value)
        cgdata = st.UnitArray([float(coarse.state.value[i % ncg]) * (1 + i // ncg) for i in range(3 * ncg)], coarse.state.units)
        cgtraj = st.RDTrajectory(cgdata, tcg, coarse, script=cgscript, engine_description="none", engine_option="")
        utr = uncoarsegrain_trajectory(cgtraj, fine, cgmap)
        for separate in (True, False):
            path = os.path.join(td, "unc_%s" % separate)
            r = api.call(lambda: O.save_rdtrajectory(utr, path, separate_data=separate))
            api.check(P + "/uncoarsegrained/save-ok (separate_data=%s)" % separate, r.ok, "raised %r" % (r.exc,))
            if not r.ok:
                continue
            b = api.call(lambda: O.load_rdtrajectory(path + ".json"))
            api.check(P + "/uncoarsegrained/load-ok (separate_data=%s)" % separate, b.ok, "raised %r" % (b.exc,))
            if not b.ok:
                continue
            u2 = b.value
            api.check(P + "/uncoarsegrained/system-is-the-trajectory's-own (separate_data=%s)" % separate,
                      rdsystem_to_dict(u2.system) == rdsystem_to_dict(utr.system))
            api.check(P + "/uncoarsegrained/script-is-the-trajectory's-script (separate_data=%s)" % separate,
                      rdscript_to_dict(u2.script) == rdscript_to_dict(utr.script))
            api.check(P + "/uncoarsegrained/index-map (separate_data=%s)" % separate,
                      list(u2.cgmap) == list(utr.cgmap))
            api.check(P + "/uncoarsegrained/data (separate_data=%s)" % separate,
                      np.array_equal(np.array(u2.data.value).ravel(), np.array(utr.data.value).ravel())
                      and str(u2.data.units) == str(utr.data.units))
        # relative path with a directory part, written from one working directory and read from another
        os.makedirs(os.path.join(td, "run", "results"))
        os.chdir(os.path.join(td, "run"))
        r = api.call(lambda: O.save_rdtrajectory(tr, "results/traj1", separate_data=True))
        api.check(P + "/save-ok (relative path with a directory)", r.ok, "raised %r" % (r.exc,))
        os.chdir(cwd)
        if r.ok:
            b = api.call(lambda: O.load_rdtrajectory(os.path.join(td, "run", "results", "traj1.json")))
            api.check(P + "/load-ok (relative path with a directory)", b.ok, "raised %r" % (b.exc,))
            if b.ok:
                api.check(P + "/data (relative path with a directory)", np.array_equal(np.array(b.value.data.value), np.array(tr.data.value)))
    finally:
        os.chdir(cwd)
        shutil.rmtree(td, ignore_errors=True)


CASES = [network_case(0), network_case(1), grid_case(), graph_case((), ()), graph_case((0,), ()), graph_case((), (1,)),
         graph_case((0, 2), (0, 1)), system_case("grid"), system_case("graph"), script_case("grid"), script_case("graph"),
         json_case("grid"), json_case("graph"), files_case("grid"), files_case("graph"),
         Case("files/trajectory", trajectory_case, functions=["save_rdtrajectory", "load_rdtrajectory"], sym=False,
              bounded="one simulated trajectory and one un-coarse-grained trajectory (system differing from the script's system), both storage modes")]
# aliases and defaults of the readers: C04's reader cases (which units system a child gets, what a bare number means)
from props import C04 as _C04
for _k in ("species", "reaction", "network", "grid", "graph", "system"):
    CASES.append(_C04.reader_case(_k))
