"""C02  Every engine conserves every conservation law of the network.

Decomposition.  A law is an integer vector c with c^T sto = 0 and no chemostated species in its support.
  total(x) = sum_cells sum_species c_s x[cell, s].
Lemmas (stated, on paper; not machine-checked here):
  L-sum      a point update of one entry changes its species' column sum by the same amount, no other column
  L-lin      sum_s c_s (x_s + a sto[s, r]) = sum_s c_s x_s  when  c^T sto[:, r] = 0
  L-pairing  if F is defined on directed interfaces, F(mate(e)) = -F(e) and mate is an involution without fixed point
             contributions... then sum over all directed interfaces of F is 0
Contracts proved on the real C++ (vc/cppsym):
  Gillespie   ApplyDiffusion keeps every species' column sum (L-sum instances at its two stores);
              ApplyReaction adds exactly sto[s, r] to every non-chemostated species s of one cell (then L-lin)
  Tau-leap    Apply_nevt without reactions keeps every column sum of a non-chemostated species; its reaction statement
              adds sto[j*R+r] x (one count per (cell, reaction)) to species j of that cell
  Euler       DiffusionRateDifference(i, s, n) = x[i,s] k_out(i,s,n) - x[nb(i,n),s] k_in(i,s,n); Compute_dxdt stores, for every
              non-chemostated (cell, species), sum_r sto[s,r] rate(cell, r) - sum_{existing n} DiffusionRateDifference(cell, s, n)
              (Skolem pointwise, ghost partial sums) and 0 for a chemostated one; Apply_dxdt adds dxdt x dt entry-wise
Pairing of the directed interfaces (nb(nb(i,n), opp n) = i on grids; slot mates with swapped in/out constants on graphs)
is a bounded stand-in: exhaustive over grid shapes and a set of multigraphs on the engine built from the working tree.
"""
from vc.core.runner import Case
try:
    import z3
    from vc.cppsym import contracts as K
    from vc.cppsym.interp import Frame, Vec, Vec2, Ptr, Obj
except ImportError:
    z3 = None
    from vc.cppsym import names as K
from props import C11, C07

META = {
    "level": "proof",
    "trusted_base": ["clang AST + vc/cppsym", "z3 / cvc5 / ratfun"],
    "assumptions": ["lemmas L-sum, L-lin, L-pairing (finite-sum algebra) are proved in Lean 4 + Mathlib (lemmas/Sums.lean, re-checked on "
                    "every run), and so is L-mates (lemmas/Mates.lean: steps that append two fresh slots pointing at each other build a "
                    "fixed-point-free involution)",
                    "pairing of directed interfaces is checked on bounded instances only (grid shapes <= 4x4x3 x 8 boundary "
                    "combinations, 6 multigraphs with self loops and parallel edges)",
                    "A1: doubles are reals (the deterministic engine conserves to rounding, the stochastic ones exactly because "
                    "their updates are integer-valued)"],
}


def _obj(I, cls):
    o = K.valid_object(I, cls)
    K.assume_content_invariants(I, o)
    if not K.is_grid(cls):
        for fct in K.rows_match_counts(I, o):
            I.c.assume(fct)
    return o


def _colsum(I, c, o, s0):
    """ghost column sum PS(arr, s, n) = sum_{i<n} arr[i*S+s] and the hook that instantiates L-sum at every store to mesh_x"""
    f = o.fields
    S, M = f["n_species"], f["n_meshes"]
    RA = z3.ArraySort(z3.IntSort(), z3.RealSort())
    PS = z3.Function("colsum_upto", RA, z3.IntSort(), z3.IntSort(), z3.RealSort())

    def on_store(I_, o_, fr, v, idx):
        cur = o_.fields["mesh_x"].arr
        cands = []
        for cn in ("mesh_index", "j", "i"):
            for sn in ("species_index", "s", "j"):
                cv, sv = I_.local_by_name(fr, cn), I_.local_by_name(fr, sn)
                if cv is not None and sv is not None and z3.is_expr(cv) and z3.is_expr(sv) and cn != sn:
                    cands.append((cv, sv))
        for cv, sv in cands:
            c.assume(z3.Implies(z3.And(idx == cv * S + sv, cv >= 0, cv < M, sv >= 0, sv < S),
                                PS(z3.Store(cur, idx, v), s0, M) == PS(cur, s0, M) + z3.If(sv == s0, v - z3.Select(cur, idx), 0)))
        return None
    return PS, on_store


def gillespie_diffusion_case(cls):
    P = "C02/%s::ApplyDiffusion" % cls

    def run(api):
        prog = C11.program()
        c = api.ctx
        I = K.make_interp(prog, c, "C02", loop_inv=dict(K.LOOP_INV))
        o = _obj(I, cls)
        f = dict(o.fields)
        S, M = f["n_species"], f["n_meshes"]
        mi, si, n, s0 = K._int(I, "mesh_index", 0), K._int(I, "species_index", 0), K._int(I, "direction", 0), K._int(I, "s0", 0)
        c.assume(z3.And(mi < M, si < S, s0 < S))
        if K.is_grid(cls):
            c.assume(z3.And(n < 6, z3.Select(f["mesh_neighbors"].arr, mi * 6 + n) != -1))
        else:
            c.assume(n < z3.Select(f["mesh_neighbor_n"].arr, mi))
        c.assume(z3.Select(f["mesh_x"].arr, mi * S + si) > 0)
        j = C07._neighbour(o, cls, mi, n)
        # the law does not involve a chemostated species: no entry of the moving species is chemostated
        c.assume(z3.And(z3.Select(f["mesh_chstt"].arr, mi * S + si) == 0, z3.Select(f["mesh_chstt"].arr, j * S + si) == 0))
        PS, hook = _colsum(I, c, o, s0)
        I.store_checks = {"mesh_x": hook}
        x0 = f["mesh_x"].arr
        fn, _ = prog.method(cls, "ApplyDiffusion")
        I.call(fn, o, [mi, si, n], fn, Frame("top"))
        c.oblige(P + "/every-species-total-unchanged", PS(o.fields["mesh_x"].arr, s0, M) == PS(x0, s0, M))

    return Case("%s/ApplyDiffusion-conserves" % cls, run, functions=["%s::ApplyDiffusion" % cls], conc=False)


def tauleap_diffusion_case(cls):
    P = "C02/%s::Apply_nevt" % cls

    def run(api):
        prog = C11.program()
        c = api.ctx
        inv0 = dict(K.LOOP_INV)
        I = K.make_interp(prog, c, "C02", loop_inv=inv0)
        o = _obj(I, cls)
        f = dict(o.fields)
        S, M = f["n_species"], f["n_meshes"]
        s0 = K._int(I, "s0", 0)
        c.assume(s0 < S)
        c.assume(f["n_reactions"] == 0)            # diffusion alone
        PS, hook = _colsum(I, c, o, s0)
        I.store_checks = {"mesh_x": hook}
        x0 = f["mesh_x"].arr
        # species s0 is nowhere chemostated
        I.read_facts = dict(I.read_facts)

        def chst_read(I_, o_, fr, e, idx):
            s = I_.local_by_name(fr, "s")
            if s is None:
                return None
            return z3.Implies(s == s0, e == 0)
        I.read_facts["mesh_chstt"] = chst_read

        def inv(I_, fr, stage):
            return [fr.this.fields["mesh_x"].n == M * S, PS(fr.this.fields["mesh_x"].arr, s0, M) == PS(x0, s0, M)]
        for k in range(1, 6):
            inv0[("Apply_nevt", k)] = inv
        fn, _ = prog.method(cls, "Apply_nevt")
        I.call(fn, o, [], fn, Frame("top"))
        c.oblige(P + "/diffusion-alone: every non-chemostated species total unchanged",
                 PS(o.fields["mesh_x"].arr, s0, M) == PS(x0, s0, M))

    return Case("%s/Apply_nevt-diffusion-conserves" % cls, run, functions=["%s::Apply_nevt" % cls], conc=False, max_paths=3000)


def tauleap_reaction_case(cls):
    P = "C02/%s::Apply_nevt" % cls

    def run(api):
        prog = C11.program()
        c = api.ctx
        I = K.make_interp(prog, c, "C02", loop_inv=dict(K.LOOP_INV))
        o = _obj(I, cls)
        f = dict(o.fields)
        S, R, M = f["n_species"], f["n_reactions"], f["n_meshes"]
        seen = []

        def on_store(I_, o_, fr, v, idx):
            r = I_.local_by_name(fr, "r")
            j = I_.local_by_name(fr, "j")
            i = I_.local_by_name(fr, "i")
            n = I_.local_by_name(fr, "n")
            if r is None or j is None or i is None or n is not None or not z3.is_expr(j):
                return None            # diffusion part: other cases
            seen.append(1)
            cur = o_.fields["mesh_x"].arr
            cnt = I_.to_real(z3.Select(f["mesh_nr"].arr, i * R + r))
            return z3.And(idx == i * S + j, z3.Select(f["mesh_chstt"].arr, i * S + j) == 0,
                          v == z3.Select(cur, idx) + I_.to_real(z3.Select(f["sto"].arr, j * R + r)) * cnt)
        I.store_checks = {"mesh_x": on_store}
        fn, _ = prog.method(cls, "Apply_nevt")
        I.call(fn, o, [], fn, Frame("top"))
        c.oblige(P + "/frame/counts-and-stoichiometry-not-written",
                 z3.And(o.fields["mesh_nr"].arr == f["mesh_nr"].arr, o.fields["sto"].arr == f["sto"].arr))

    return Case("%s/Apply_nevt-reaction-statement" % cls, run, functions=["%s::Apply_nevt" % cls], conc=False, max_paths=3000)


def tauleap_reaction_effect_case(cls):
    """Apply_nevt with no diffusion count: entry (cell i0, species j0) ends as pre + sum_r sto[j0,r] x count(i0,r) when not
    chemostated and is unchanged otherwise: every species of the cell receives every reaction's change (then L-lin)"""
    P = "C02/%s::Apply_nevt" % cls

    def run(api):
        prog = C11.program()
        c = api.ctx
        inv0 = dict(K.LOOP_INV)
        I = K.make_interp(prog, c, "C02", loop_inv=inv0)
        o = _obj(I, cls)
        f = dict(o.fields)
        S, R, M = f["n_species"], f["n_reactions"], f["n_meshes"]
        i0, j0 = K._int(I, "i0", 0), K._int(I, "j0", 0)
        c.assume(z3.And(i0 < M, j0 < S))
        I.store_checks = {}
        I.read_facts = dict(I.read_facts)
        I.read_facts["mesh_nd"] = lambda I_, o_, fr, e, idx: I_.to_real(e) == 0        # no diffusion event in this step
        x0 = f["mesh_x"].arr
        e0 = i0 * S + j0
        ch0 = z3.Select(f["mesh_chstt"].arr, e0) != 0
        RS = z3.Function("applied_upto", z3.IntSort(), z3.RealSort())          # sum_{r'<r} sto[j0,r'] count(i0,r')
        c.assume(RS(0) == 0)

        def term(r):
            return I.to_real(z3.Select(f["sto"].arr, j0 * R + r)) * I.to_real(z3.Select(f["mesh_nr"].arr, i0 * R + r))

        def L(fr, nm):
            return I.local_by_name(fr, nm)

        def cur(fr):
            return z3.Select(fr.this.fields["mesh_x"].arr, e0)
        final = z3.If(ch0, z3.Select(x0, e0), z3.Select(x0, e0) + RS(R))

        def inv_i(I_, fr, stage):
            i = L(fr, "i")
            return [fr.this.fields["mesh_x"].n == M * S, cur(fr) == z3.If(i > i0, final, z3.Select(x0, e0))]

        def inv_r(I_, fr, stage):
            i, r = L(fr, "i"), L(fr, "r")
            if stage == "assume":
                c.assume(z3.Implies(r >= 0, RS(r + 1) == RS(r) + term(r)))            # definition
            mid = z3.If(ch0, z3.Select(x0, e0), z3.Select(x0, e0) + RS(r))
            return [fr.this.fields["mesh_x"].n == M * S,
                    cur(fr) == z3.If(i > i0, final, z3.If(i == i0, mid, z3.Select(x0, e0)))]

        def inv_j(I_, fr, stage):
            i, r, j = L(fr, "i"), L(fr, "r"), L(fr, "j")
            if stage == "assume":
                c.assume(z3.Implies(r >= 0, RS(r + 1) == RS(r) + term(r)))
            mid = z3.If(ch0, z3.Select(x0, e0), z3.Select(x0, e0) + RS(r) + z3.If(j > j0, term(r), 0))
            return [fr.this.fields["mesh_x"].n == M * S,
                    cur(fr) == z3.If(i > i0, final, z3.If(i == i0, mid, z3.Select(x0, e0)))]

        def inv_d(I_, fr, stage):
            i = L(fr, "i")
            return [fr.this.fields["mesh_x"].n == M * S, cur(fr) == z3.If(i >= i0, final, z3.Select(x0, e0))]
        inv0.update({("Apply_nevt", 1): inv_i, ("Apply_nevt", 2): inv_r, ("Apply_nevt", 3): inv_j, ("Apply_nevt", 4): inv_d,
                     ("Apply_nevt", 5): inv_d})
        fn, _ = prog.method(cls, "Apply_nevt")
        I.call(fn, o, [], fn, Frame("top"))
        c.oblige(P + "/every-entry: + sum_r sto[s,r] x count(cell,r) unless chemostated (no diffusion count)", cur(Frame("x", o)) == final)

    return Case("%s/Apply_nevt-reaction-effect" % cls, run, functions=["%s::Apply_nevt" % cls], conc=False, max_paths=3000)


def drd_case(cls):
    P = "C02/%s::DiffusionRateDifference" % cls

    def run(api):
        prog = C11.program()
        c = api.ctx
        I = K.make_interp(prog, c, "C02", loop_inv=dict(K.LOOP_INV))
        o = _obj(I, cls)
        f = o.fields
        S, M = f["n_species"], f["n_meshes"]
        mi, si, n = K._int(I, "mesh_index", 0), K._int(I, "species_index", 0), K._int(I, "direction", 0)
        c.assume(z3.And(mi < M, si < S))
        x = f["mesh_x"].arr
        if K.is_grid(cls):
            c.assume(z3.And(n < 6, z3.Select(f["mesh_neighbors"].arr, mi * 6 + n) != -1))
            j = z3.Select(f["mesh_neighbors"].arr, mi * 6 + n)
            opp = z3.Select(f["opposed_direction"].arr, n)
            want = (z3.Select(x, mi * S + si) * z3.Select(f["mesh_kd"].arr, mi * S * 6 + si * 6 + n) -
                    z3.Select(x, j * S + si) * z3.Select(f["mesh_kd"].arr, j * S * 6 + si * 6 + opp))
        else:
            cnt = z3.Select(f["mesh_neighbor_n"].arr, mi)
            c.assume(n < cnt)
            j = z3.Select(z3.Select(f["mesh_neighbor_index"].arr, mi), n)
            want = (z3.Select(x, mi * S + si) * z3.Select(z3.Select(f["mesh_kd_out"].arr, mi), si * cnt + n) -
                    z3.Select(x, j * S + si) * z3.Select(z3.Select(f["mesh_kd_in"].arr, mi), si * cnt + n))
        fn, _ = prog.method(cls, "DiffusionRateDifference")
        r = I.call(fn, o, [mi, si, n], fn, Frame("top"))
        c.oblige(P + "/value: outgoing flux minus the neighbour's flux through the same interface", r == want)

    return Case("%s/DiffusionRateDifference" % cls, run, functions=["%s::DiffusionRateDifference" % cls], conc=False)


def compute_dxdt_case(cls, prop="C02"):
    P = "%s/%s::Compute_dxdt" % (prop, cls)

    def run(api):
        prog = C11.program()
        c = api.ctx
        inv0 = dict(K.LOOP_INV)
        I = K.make_interp(prog, c, prop, loop_inv=inv0)
        o = _obj(I, cls)
        f = dict(o.fields)
        S, R, M = f["n_species"], f["n_reactions"], f["n_meshes"]
        i0, s0 = K._int(I, "i0", 0), K._int(I, "s0", 0)
        c.assume(z3.And(i0 < M, s0 < S))
        RR = z3.Function("reaction_rate", z3.IntSort(), z3.IntSort(), z3.RealSort())
        DRD = z3.Function("flux_difference", z3.IntSort(), z3.IntSort(), z3.IntSort(), z3.RealSort())
        RS = z3.Function("reaction_sum_upto", z3.IntSort(), z3.RealSort())        # sum_{r<k} sto[s0,r] RR(i0,r)
        DS = z3.Function("flux_sum_upto", z3.IntSort(), z3.RealSort())            # sum_{n<k, interface exists} DRD(i0,s0,n)
        I.method_stubs = {"ReactionRate": lambda I_, this, a, fr, node: RR(a[0], a[1]),
                          "DiffusionRateDifference": lambda I_, this, a, fr, node: DRD(a[0], a[1], a[2])}
        sto = f["sto"].arr
        c.assume(z3.And(RS(0) == 0, DS(0) == 0))

        def exists(n):
            if K.is_grid(cls):
                return z3.Select(f["mesh_neighbors"].arr, i0 * 6 + n) != -1
            return z3.BoolVal(True)
        nmax = z3.IntVal(6) if K.is_grid(cls) else z3.Select(f["mesh_neighbor_n"].arr, i0)
        ch0 = z3.Select(f["mesh_chstt"].arr, i0 * S + s0) != 0

        def L(fr, nm):
            return I.local_by_name(fr, nm)

        def dx(fr):
            return z3.Select(fr.this.fields["mesh_dxdt"].arr, i0 * S + s0)

        def final_value():
            return z3.If(ch0, 0, RS(R) - DS(nmax))

        def inv_cells(I_, fr, stage):
            i = L(fr, "i")
            return [fr.this.fields["mesh_dxdt"].n == M * S, z3.Implies(i > i0, dx(fr) == final_value())]

        def inv_rates(I_, fr, stage):
            i, r, rr = L(fr, "i"), L(fr, "r"), L(fr, "rr")
            k = z3.Int("k!rr")
            return inv_cells(I_, fr, stage) + [rr.n == R, z3.ForAll([k], z3.Implies(z3.And(k >= 0, k < r), z3.Select(rr.arr, k) == RR(i, k)))]

        def inv_species(I_, fr, stage):
            i, s = L(fr, "i"), L(fr, "s")
            return [fr.this.fields["mesh_dxdt"].n == M * S,
                    z3.Implies(z3.Or(i > i0, z3.And(i == i0, s > s0)), dx(fr) == final_value())]

        def inv_racc(I_, fr, stage):
            i, s, r = L(fr, "i"), L(fr, "s"), L(fr, "r")
            if stage == "assume":
                c.assume(z3.Implies(r >= 0, RS(r + 1) == RS(r) + I_.to_real(z3.Select(sto, s0 * R + r)) * RR(i0, r)))   # definition
            return [fr.this.fields["mesh_dxdt"].n == M * S,
                    z3.Implies(z3.Or(i > i0, z3.And(i == i0, s > s0)), dx(fr) == final_value()),
                    z3.Implies(z3.And(i == i0, s == s0), dx(fr) == RS(r))]

        def inv_flux(I_, fr, stage):
            i, s, n = L(fr, "i"), L(fr, "s"), L(fr, "n")
            if stage == "assume":
                c.assume(z3.Implies(n >= 0, DS(n + 1) == DS(n) + z3.If(exists(n), DRD(i0, s0, n), 0)))                     # definition
            return [fr.this.fields["mesh_dxdt"].n == M * S,
                    z3.Implies(z3.Or(i > i0, z3.And(i == i0, s > s0)), dx(fr) == final_value()),
                    z3.Implies(z3.And(i == i0, s == s0), dx(fr) == RS(R) - DS(n))]
        inv0.update({("Compute_dxdt", 1): inv_cells, ("Compute_dxdt", 2): inv_rates, ("Compute_dxdt", 3): inv_species,
                     ("Compute_dxdt", 4): inv_racc, ("Compute_dxdt", 5): inv_flux})
        x0 = f["mesh_x"].arr
        fn, _ = prog.method(cls, "Compute_dxdt")
        I.call(fn, o, [], fn, Frame("top"))
        c.oblige(P + "/every-entry: 0 if chemostated, else sum_r sto[s,r] rate(cell,r) - sum_n flux difference(cell,s,n)",
                 dx(Frame("x", o)) == final_value())
        c.oblige(P + "/state-not-changed", o.fields["mesh_x"].arr == x0)

    return Case("%s/Compute_dxdt" % cls, run, functions=["%s::Compute_dxdt" % cls], conc=False, max_paths=4000)


def apply_dxdt_case(cls, prop="C02"):
    P = "%s/%s::Apply_dxdt" % (prop, cls)

    def run(api):
        prog = C11.program()
        c = api.ctx
        inv0 = dict(K.LOOP_INV)
        I = K.make_interp(prog, c, prop, loop_inv=inv0)
        o = _obj(I, cls)
        f = dict(o.fields)
        S, M = f["n_species"], f["n_meshes"]
        i0, s0 = K._int(I, "i0", 0), K._int(I, "s0", 0)
        c.assume(z3.And(i0 < M, s0 < S))
        e0 = i0 * S + s0
        x0, dx, dt = f["mesh_x"].arr, f["mesh_dxdt"].arr, f["dt"]
        new = z3.Select(x0, e0) + z3.Select(dx, e0) * dt

        def inv(level):
            def fn_(I_, fr, stage):
                i = I_.local_by_name(fr, "i")
                j = I_.local_by_name(fr, "j") if level == 2 else z3.IntVal(0)
                done = z3.Or(i > i0, z3.And(i == i0, j > s0))
                return [fr.this.fields["mesh_x"].n == M * S, fr.this.fields["mesh_dxdt"].arr == dx,
                        z3.Select(fr.this.fields["mesh_x"].arr, e0) == z3.If(done, new, z3.Select(x0, e0))]
            return fn_
        inv0[("Apply_dxdt", 1)] = inv(1)
        inv0[("Apply_dxdt", 2)] = inv(2)
        fn, _ = prog.method(cls, "Apply_dxdt")
        I.call(fn, o, [], fn, Frame("top"))
        c.oblige(P + "/every-entry: x + dxdt x dt", z3.Select(o.fields["mesh_x"].arr, e0) == new)

    return Case("%s/Apply_dxdt" % cls, run, functions=["%s::Apply_dxdt" % cls], conc=False)


def pairing_grid_case(n):
    """grid, symbolic shape and boundary conditions: the neighbour of the neighbour in the opposite direction is the cell
    itself, at the level of GetNeighborIndex (coordinates), of the index decomposition used by BuildMeshNeighbors, and of the table"""
    P = "C02/pairing/grid"
    OPP = (1, 0, 3, 2, 5, 4)

    def run(api):
        from vc.core import lemmas
        from vc.core.proxies import PYDIV, PYMOD, divmod_fact
        prog = C11.program()
        c = api.ctx
        I = K.make_interp(prog, c, "C02", loop_inv=dict(K.LOOP_INV))
        o = K.valid_object(I, "Euler3D")
        f = o.fields
        w, h, d = f["w"], f["h"], f["d"]
        bc = f["boundary_conditions"].arr
        for k in range(3):
            c.assume(z3.Or(z3.Select(bc, k) == 0, z3.Select(bc, k) == 1))
        x, y, z = K._int(I, "x", 0), K._int(I, "y", 0), K._int(I, "z", 0)
        c.assume(z3.And(x < w, y < h, z < d))
        fn, _ = prog.method("Euler3D", "GetNeighborIndex")

        def wrap_hints(a, m):
            # a mod m for -1 <= a - m < m + 1 ... : the three possible quotients (instances of the uniqueness schema U)
            for q in (0, 1, 2):
                c.assume(lemmas.instance("U", m, PYMOD(a, m), PYDIV(a, m), a - q * m, z3.IntVal(q)))
        for (a, m) in ((w + x + 1, w), (w + x - 1, w), (w + x, w), (h + y + 1, h), (h + y - 1, h), (h + y, h),
                       (d + z + 1, d), (d + z - 1, d), (d + z, d)):
            wrap_hints(a, m)
        r1 = I.call(fn, o, [x, y, z, z3.IntVal(n)], fn, Frame("top"))
        loc = dict(I.last_frame_locals)
        xn, yn, zn = loc["xn"], loc["yn"], loc["zn"]
        if not c.branch(r1 != -1):
            return
        c.oblige(P + "/neighbour-index-is-the-index-of-in-range-coordinates",
                 z3.And(r1 == w * h * zn + w * yn + xn, xn >= 0, xn < w, yn >= 0, yn < h, zn >= 0, zn < d))
        for (a, m) in ((w + xn + 1, w), (w + xn - 1, w), (w + xn, w), (h + yn + 1, h), (h + yn - 1, h), (h + yn, h),
                       (d + zn + 1, d), (d + zn - 1, d), (d + zn, d)):
            wrap_hints(a, m)
        r2 = I.call(fn, o, [xn, yn, zn, z3.IntVal(OPP[n])], fn, Frame("top"))
        c.oblige(P + "/opposite-neighbour-of-the-neighbour-is-the-cell (coordinates)", r2 == w * h * z + w * y + x)

    return Case("pairing/grid/direction%d" % n, run, functions=["SimulationAlgorithm3DBase::GetNeighborIndex"], conc=False,
                max_paths=3000)


def build_neighbors_case():
    """BuildMeshNeighbors stores, for every cell i and direction n, GetNeighborIndex(coordinates of i, n), where the coordinates
    handed over are the ones whose linear index is i (so the table is the coordinate-level neighbour relation)"""
    P = "C02/pairing/grid/BuildMeshNeighbors"

    def run(api):
        from vc.core import lemmas
        from vc.core.proxies import PYDIV, PYMOD, divmod_fact
        prog = C11.program()
        c = api.ctx
        I = K.make_interp(prog, c, "C02", loop_inv=dict(K.LOOP_INV))
        o = K.valid_object(I, "Euler3D")
        f = o.fields
        w, h, d = f["w"], f["h"], f["d"]
        GNI = z3.Function("neighbour_of_coordinates", z3.IntSort(), z3.IntSort(), z3.IntSort(), z3.IntSort(), z3.IntSort())
        last = {}

        def stub(I_, this, args, fr, node):
            x, y, z, n = args
            i = I_.local_by_name(fr, "i")
            c.assume(lemmas.instance("R", i, w, h, d))
            wh = w * h
            r2 = PYMOD(i, wh)
            # i mod w = (i mod wh) mod w: uniqueness of quotient and remainder for the divisor w
            c.assume(lemmas.instance("U", w, PYMOD(i, w), PYDIV(i, w), PYMOD(r2, w), h * PYDIV(i, wh) + PYDIV(r2, w)))
            c.oblige(P + "/coordinates-handed-over-are-those-of-cell-i",
                     z3.And(x >= 0, x < w, y >= 0, y < h, z >= 0, z < d, i == w * h * z + w * y + x))
            r = GNI(x, y, z, n)
            c.assume(z3.And(r >= -1, r < w * h * d))
            last["v"], last["n"], last["i"] = r, n, i
            return r
        I.method_stubs = {"GetNeighborIndex": stub}

        def chk(I_, o_, fr, v, idx):
            if "v" not in last:
                return z3.BoolVal(False)
            return z3.And(v == last["v"], idx == last["i"] * 6 + last["n"])
        I.store_checks = {"mesh_neighbors": chk}
        fn, _ = prog.method("Euler3D", "BuildMeshNeighbors")
        I.call(fn, o, [], fn, Frame("top"))
        c.oblige(P + "/table-length", o.fields["mesh_neighbors"].n == w * h * d * 6)

    return Case("pairing/grid/BuildMeshNeighbors", run, functions=["SimulationAlgorithm3DBase::BuildMeshNeighbors"], conc=False,
                max_paths=3000)


def set_neighbors_iteration_case():
    """graph: one iteration of SetNeighbors (edge e between a and b) appends exactly one slot to row a (neighbour b) and one to
    row b (neighbour a) of the three ragged tables, with the edge's surface and distance in both, bumps both counts, and leaves
    every older slot and every other row unchanged: the two new slots are each other's mates (a self loop gets two slots in
    the same row).  By induction over the edge list every slot has exactly one mate (lemma L-mates, lemmas/Mates.lean)."""
    P = "C02/pairing/graph/SetNeighbors-iteration"

    def run(api):
        prog = C11.program()
        c = api.ctx
        inv0 = dict(K.LOOP_INV)
        I = K.make_interp(prog, c, "C02", loop_inv=inv0)
        o = _obj(I, "EulerGraph")
        f = o.fields
        M = f["n_meshes"]
        ne = K._int(I, "n_edges", 0)
        ei, ej = I.fresh_vec("edge_i", "int", ne), I.fresh_vec("edge_j", "int", ne)
        es, ed = I.fresh_vec("edge_sfc", "real", ne), I.fresh_vec("edge_dst", "real", ne)
        I.param_facts = {"edge_i": lambda e: z3.And(e >= 0, e < M), "edge_j": lambda e: z3.And(e >= 0, e < M),
                         "edge_sfc": lambda e: e > 0, "edge_dst": lambda e: e > 0}
        r0, k0 = K._int(I, "r0", 0), K._int(I, "k0", 0)       # an arbitrary row and an arbitrary older slot
        c.assume(r0 < M)
        snap = {}
        TABS = ("mesh_neighbor_index", "mesh_neighbor_sfc", "mesh_neighbor_dst")

        def inv(I_, fr, stage):
            base = K.inv_set_neighbors(I_, fr, stage)
            ff = fr.this.fields
            if stage == "assume":
                snap["cnt"] = ff["mesh_neighbor_n"].arr
                for t in TABS:
                    snap[t] = (ff[t].lens, ff[t].arr)
                return base
            if stage != "preserve":
                return base
            if __import__("os").environ.get("VERIF_PROBE_FALSE"):
                return [z3.BoolVal(False)]
            e = I_.local_by_name(fr, "i") - 1
            a, b = z3.Select(ei.arr, e), z3.Select(ej.arr, e)
            vals = {"mesh_neighbor_index": (I_.to_int(b), I_.to_int(a)), "mesh_neighbor_sfc": (z3.Select(es.arr, e),) * 2,
                    "mesh_neighbor_dst": (z3.Select(ed.arr, e),) * 2}
            out = list(base)
            cnt0, cnt1 = snap["cnt"], ff["mesh_neighbor_n"].arr
            out.append(z3.And(z3.Select(cnt1, a) == z3.Select(cnt0, a) + z3.If(a == b, 2, 1),
                              z3.Select(cnt1, b) == z3.Select(cnt0, b) + z3.If(a == b, 2, 1),
                              z3.Implies(z3.And(r0 != a, r0 != b), z3.Select(cnt1, r0) == z3.Select(cnt0, r0))))
            for t in TABS:
                lens0, arr0 = snap[t]
                lens1, arr1 = ff[t].lens, ff[t].arr
                La, Lb = z3.Select(lens0, a), z3.Select(lens0, b)
                va, vb = vals[t]
                rowa, rowb = z3.Select(arr1, a), z3.Select(arr1, b)
                distinct = z3.And(z3.Select(lens1, a) == La + 1, z3.Select(lens1, b) == Lb + 1,
                                  z3.Select(rowa, La) == va, z3.Select(rowb, Lb) == vb)
                loop = z3.And(z3.Select(lens1, a) == La + 2, z3.Select(rowa, La) == va, z3.Select(rowa, La + 1) == vb)
                out.append(z3.If(a == b, loop, distinct))                                        # the two new mate slots
                out.append(z3.Implies(z3.And(r0 != a, r0 != b),                                   # other rows untouched
                                      z3.And(z3.Select(lens1, r0) == z3.Select(lens0, r0), z3.Select(arr1, r0) == z3.Select(arr0, r0))))
                out.append(z3.Implies(k0 < z3.Select(lens0, r0),                                  # older slots untouched
                                      z3.Select(z3.Select(arr1, r0), k0) == z3.Select(z3.Select(arr0, r0), k0)))
            return out
        inv0[("SetNeighbors", 1)] = inv
        fn, _ = prog.method("EulerGraph", "SetNeighbors")
        I.call(fn, o, [ne, ei, ej, es, ed], fn, Frame("top"))
        api.check(P + "/completed", True)

    return Case("pairing/graph/SetNeighbors-iteration", run, functions=["SimulationAlgorithmGraphBase::SetNeighbors"], conc=False,
                max_paths=3000)


def battery_step(tier, seed):
    """bounded stand-ins on the engine built from the working tree (ASan+UBSan): pairing of directed interfaces, and
    conservation of A+B over 2000 steps of A <-> B with diffusion for the three engines"""
    from vc.cppsym.replay import Battery
    b = Battery()
    out = {"name": "conservation battery", "violations": [], "undecided": [], "runs": 0,
           "bounded": "pairing: grids <= 4x4x3 x 8 boundary combinations, 6 multigraphs (self loops, parallel edges, 2 environments, "
                      "heterogeneous volumes); conservation: 2000 steps x 3 engines x 2 space types x %d seeds" % (1 if tier == "quick" else 4)}
    try:
        if not b.build():
            out["crash"] = "driver does not build: " + b.build_log[-800:]
            return out
        seen = set()
        runs = [("pairing", "euler", sp, 1) for sp in ("grid", "graph")]
        for e in ("euler", "tauleap", "gillespie"):
            for sp in ("grid", "graph"):
                for sd in range(1 + seed, 1 + seed + (1 if tier == "quick" else 4)):
                    runs.append(("conservation", e, sp, sd))
        for sc, e, sp, sd in runs:
            r = b.run(sc, e, sp, "no_sampling", "none", sd, timeout=120)
            out["runs"] += 1
            if r["status"] in ("crash", "hang"):
                sig = sc if sc in r["detail"] else ("hang" if r["status"] == "hang" else C11._signature(r))
                if (sig, e) in seen:
                    continue
                seen.add((sig, e))
                out["violations"].append({"obligation": "C02/sanitizer/%s" % sig, "inputs": {"scenario": r["cmd"]},
                                          "status": r["status"], "detail": r["detail"][-600:]})
    finally:
        b.close()
    return out


def link_replay(oid, extra):
    for e in extra:
        for v in e.get("violations", []):
            if v["obligation"].endswith("conservation") or v["obligation"].endswith("pairing"):
                eng = v["inputs"]["scenario"].split()[1]
                if (eng == "euler" and "Euler" in oid) or (eng == "tauleap" and "TauLeap" in oid) or (eng == "gillespie" and "Gillespie" in oid):
                    return {"inputs": v["inputs"], "failed": [oid], "how": "engine built from the working tree", "detail": v["detail"][-300:]}
    return None


from vc.core.leanstep import lean_step as _lean_step
EXTRA = [battery_step, _lean_step("Sums.lean", "C02", ["L_sum", "L_lin", "L_pairing"]), _lean_step("Mates.lean", "C02", ["L_mates"])]
CASES = []
if z3 is not None:
    for _c in ("Gillespie3D", "GillespieGraph"):
        CASES += [gillespie_diffusion_case(_c), C07.apply_reaction_case(_c, "C02")]
    for _c in ("TauLeap3D", "TauLeapGraph"):
        CASES += [tauleap_diffusion_case(_c), tauleap_reaction_case(_c), tauleap_reaction_effect_case(_c)]
    for _c in ("Euler3D", "EulerGraph"):
        CASES += [drd_case(_c), compute_dxdt_case(_c), apply_dxdt_case(_c)]
    for _n in range(6):
        CASES.append(pairing_grid_case(_n))
    CASES.append(build_neighbors_case())
    CASES.append(set_neighbors_iteration_case())


# Python seam (librdengine.py is one of the property's anchors): the stoichiometric and substrate matrices, the chemostat map and
# the state reach the engine in the layout its contracts above are stated in - C04's marshalling cases, part of this check
from props import C04 as _C04
for _sp in ("grid", "graph"):
    for _rm in (False, True):
        CASES.append(_C04.marshal_case(_sp, _rm))


def LATE_CASES():
    """the C entry points hand state and chemostat map to Init in the cell-major layout of the contracts above (a chemostat
    flag landing on another entry makes a conserved species a chemostated one): C14's dispatch and transposition cases"""
    if z3 is None:
        return []
    from props import C14 as _C14
    return [_C14.dispatch_case("grid", "none", "euler"), _C14.dispatch_case("graph", "none", "gillespie"),
            _C14.transposition_case("int"), _C14.transposition_case("double")]
