"""C03  Chemostated entries never change; everything else ignores the flag (Python side).

  kinetics    compute_dspeciesdt(s, i) is 0 iff the flag at (species s, cell i) is set (and chemostats are
              applied), otherwise the rate law; the flag of another species / cell is never consulted
  dxdtf       the exported ODE right-hand side is 0 for flagged species, the rate law otherwise
  by hand     RDSystem.apply_reaction skips flagged entries, changes the others by n x net stoichiometry,
              and touches no other entry
The engine side (Euler / tau-leap / Gillespie writers of the state) is covered by the C++ front end.
"""
from vc.core.runner import Case
from vc.core.api import KINDS
from spec import quant as Q
from spec import model as M
from props import C01

META = {
    "level": "proof",
    "trusted_base": ["vc/pysym", "z3 / cvc5"],
    "assumptions": ["A1", "structure enumerated (2-3 species, 2 reactions); cells, flags, state, units symbolic",
                    "the callees compute_reaction_rates / compute_diffusion_rates are replaced by their contracts "
                    "(verified in C01) when compute_dspeciesdt is verified"],
}
QTY = M.dims_of("quantity")


def apply_reaction_case(update):
    cid = "apply_reaction/%s" % ("update" if update else "copy")
    P = "C03/apply_reaction"
    DSTO = [-1, 1]          # A + B -> 2 B

    def run(api):
        R = api.mod("rdsystem")
        net = M.mk_network(api, S=2, E=1, reactions=[("A + B -> 2 B", "scalar", "scalar")], species_units=False)
        g = M.mk_grid(api, E=1, env_form="scalar")
        n = g.n
        sys_us = M.mk_system(api, "sys")
        st = api.array("st", 2 * n)
        ch = api.array("ch", 2 * n, sort="int")
        if api.mode == "conc":
            ch = [abs(v) % 2 for v in ch]
        system = R.RDSystem(net.obj, g.obj, state=st, chemostats=ch, units_system=sys_us)
        pos = api.index("pos", n)
        mult = api.int("n", 0, 50, draw=(0, 5))
        out = api.call(lambda: system.apply_reaction(0, position=pos, n=mult, update=update))
        api.check(P + "/no_raise", out.ok, "raised %r" % (out.exc,))
        if not out.ok:
            return
        new = out.value
        sc = Q.scale(api, sys_us, QTY)
        j = api.index("j", 2 * n)
        for s in range(2):
            idx = s * n + pos
            flag = api.sel(ch, idx)
            one = api.tbl("quantity", "molecule")           # SI value of one molecule
            exp = api.num(api.sel(st, idx)) * sc + api.ite(api.eq(flag, 0), mult * DSTO[s], 0) * one
            api.check(P + "/entry_species%d" % s, api.eq(Q.si_at(api, new, idx), exp))
        api.check(P + "/other_entries_unchanged",
                  api.or_(api.eq(j, pos), api.eq(j, n + pos),
                          api.eq(api.arr_get(new.value, j), api.sel(st, j))))
        stored = system.state
        if update:
            api.check(P + "/system_updated", api.eq(api.arr_get(stored.value, j), api.arr_get(new.value, j)))
        else:
            api.check(P + "/system_untouched", api.eq(api.arr_get(stored.value, j), api.sel(st, j)))

    return Case(cid, run, functions=["RDSystem.apply_reaction", "Reaction.dsto", "RDSystem.get_state_index"])


CASES = []
for _s in (0, 1):
    CASES.append(C01.dspeciesdt_graph_case(2, _s, True, prop="C03"))
    CASES.append(C01.dspeciesdt_grid_case(2, _s, True, "x", prop="C03"))
CASES.append(C01.dspeciesdt_grid_case(2, 1, True, "z", prop="C03"))
CASES.append(C01.dspeciesdt_graph_case(2, 1, False, prop="C03"))
for _s, _p in (((1, 1), (1, 0)), ((2, 0), (0, 1))):
    CASES.append(C01.dxdtf_case(_s, _p, prop="C03"))
CASES.append(apply_reaction_case(True))
CASES.append(apply_reaction_case(False))


# ---- engine side (real C++ through vc/cppsym) ---------------------------------------------------------------------
# stochastic writers: the flag consulted is the one of the very entry written, flagged entries are exempt, nothing else changes;
# propensities never read the flag (a flagged entry still reacts and diffuses out); deterministic engine: derivative 0 for a
# flagged entry (hence x + 0 x dt), unflagged ones follow the rate law; tau-leap: no store into a flagged entry
try:
    import z3 as _z3
    from vc.cppsym import contracts as _K
    from vc.cppsym.interp import Frame as _Frame
except ImportError:
    _z3 = None


def no_store_into_flagged_case(cls):
    P = "C03/%s::Iterate" % cls

    def run(api):
        from props import C11
        prog = C11.program()
        I = _K.make_interp(prog, api.ctx, "C03", loop_inv=_K.LOOP_INV)
        o = _K.valid_object(I, cls)
        _K.assume_content_invariants(I, o)
        ch = o.fields["mesh_chstt"].arr
        old = I.store_checks.get("mesh_x")

        def chk(I_, o_, fr, v, idx):
            mine = _z3.Select(ch, idx) == 0
            prev = old(I_, o_, fr, v, idx) if old else None
            return mine if prev is None else _z3.And(prev, mine)
        I.store_checks = dict(I.store_checks)
        I.store_checks["mesh_x"] = chk
        fn, _ = prog.method(cls, "Iterate")
        I.call(fn, o, [], fn, _Frame("top"))
        api.ctx.oblige(P + "/chemostat-map-not-written", o.fields["mesh_chstt"].arr == ch)

    return Case("engine/%s/no-store-into-a-flagged-entry" % cls, run, functions=["%s::Iterate (+ inlined callees)" % cls],
                conc=False, max_paths=4000)


if _z3 is not None:
    from props import C07 as _C07, C02 as _C02
    for _c in ("Gillespie3D", "GillespieGraph"):
        CASES += [_C07.apply_reaction_case(_c, "C03"), _C07.apply_diffusion_case(_c, "C03"),
                  _C07.reaction_prop_case(_c, "C03"), _C07.diffusion_prop_case(_c, "C03"), no_store_into_flagged_case(_c)]
        CASES.append(_C07.compute_propensities_case(_c, "C03"))       # a flagged entry still diffuses out and reacts
    for _c in ("TauLeap3D", "TauLeapGraph"):
        CASES.append(no_store_into_flagged_case(_c))
        CASES.append(_C07.compute_nevt_case(_c, "C03"))
    for _c in ("Euler3D", "EulerGraph"):
        CASES += [_C02.compute_dxdt_case(_c, "C03"), _C02.apply_dxdt_case(_c, "C03")]
    # the chemostat map reaches the engine in the layout of the state (cell-major): set-up contract of C14
    from props import C14 as _C14
    CASES += [_C14.dispatch_case("grid", "none", "euler"), _C14.dispatch_case("graph", "none", "gillespie"),
              _C14.transposition_case("int")]
