"""C17  Trajectory accessors all read the same array consistently.

Under contract (rdoutput.py): RDTrajectory.__init__/nsamples/nspecies/ncells/get_trajectory/
get_state/get_trajectory_point/_get_sample_index_closest/_infeq/_supeq/get_sample_index.
Number of samples N, grid size n = w*h*d, data, times and the query are symbolic; the
network has S = 3 species (addressed by label, index or object).
"""
from vc.core.runner import Case
from vc.core.api import KINDS
from spec import quant as Q
from spec import model as M
from spec import gridlemmas as GL
from props.C13 import position_forms

META = {
    "level": "proof",
    "trusted_base": ["vc/pysym incl. model of numpy reshape (row-major) and of the search-loop rule", "z3 / cvc5"],
    "assumptions": ["A1", "S = 3 species (structure), everything else symbolic",
                    "times non-decreasing (property quantifier); instances of monotonicity assumed at the indices used",
                    "L-IVT (discrete intermediate value: t[a] <= q < t[b], a < b  =>  some window [k,k+1) contains q), used as a "
                    "Skolemised lemma instance for 'closest', is proved in Lean 4 + Mathlib (lemmas/Ivt.lean, re-checked on every run)"],
}
S_ = 3
TIME = M.dims_of("time")
QTY = M.dims_of("quantity")


def mk_traj(api, with_grid=True):
    U = api.mod("units")
    R = api.mod("rdsystem")
    O = api.mod("rdoutput")
    net = M.mk_network(api, S=S_, E=1, species_units=False)
    g = M.mk_grid(api, E=1, env_form="scalar")
    n = g.n
    system = R.RDSystem(net.obj, g.obj)
    N = api.length("N", 1, 5)
    if api.mode == "sym":
        api.ctx.assume(N.z >= 1)
    dus, tus = M.mk_system(api, "dus"), M.mk_system(api, "tus")
    data = api.array("data", N * S_ * n)
    times = api.array("times", N)
    D = U.UnitArray(data, U.Units(dus, U.quantity_units_dimensions()))
    T = U.UnitArray(times, U.Units(tus, U.time_units_dimensions()))
    tr = O.RDTrajectory(data=D, t_sample=T, system=system)
    return tr, net, g, N, data, times, dus, tus


def species_arg(net, s, form):
    return {"index": s, "label": M.SPECIES[s], "object": net.obj.species[s]}[form]


def point_case(sp_form, pos_form):
    cid = "point/%s/%s" % (sp_form, pos_form)
    P = "C17/accessors"

    def run(api):
        tr, net, g, N, data, times, dus, tus = mk_traj(api)
        n = g.n
        s = api.choice("s", S_)
        sp = species_arg(net, s, sp_form)
        pos, c = position_forms(api, g, pos_form)
        k = api.index("k", N)
        api.use_lemma("B", c, s, k, n, S_, N)            # flat index in range
        flat = k * S_ * n + s * n + c
        api.check(P + "/shape", api.and_(api.eq(tr.nsamples(), N), api.eq(tr.nspecies(), S_), api.eq(tr.ncells(), n)))
        pt = api.call(lambda: tr.get_trajectory_point(sp, k, pos))
        api.check(P + "/point_ok", pt.ok, "raised %r" % (pt.exc,))
        if pt.ok:
            api.check(P + "/point_is_data_at_flat_index", api.eq(pt.value.value, api.arr_get(data, flat)))
            for kk in KINDS:
                api.check(P + "/point_units." + kk, api.and_(api.eq(pt.value.units.sys[kk], dus[kk]),
                                                             api.eq(pt.value.units.dim[kk], QTY[kk])))
        st = api.call(lambda: tr.get_state(sp, k))
        api.check(P + "/state_ok", st.ok, "raised %r" % (st.exc,))
        if st.ok:
            api.check(P + "/state_len", api.eq(api.arr_len(st.value.value), n))
            api.check(P + "/state_entry", api.eq(api.arr_get(st.value.value, c), api.arr_get(data, flat)))
        tj = api.call(lambda: tr.get_trajectory(sp, pos))
        api.check(P + "/trajectory_ok", tj.ok, "raised %r" % (tj.exc,))
        if tj.ok:
            api.check(P + "/trajectory_len", api.eq(api.arr_len(tj.value.value), N))
            api.check(P + "/trajectory_entry", api.eq(api.arr_get(tj.value.value, k), api.arr_get(data, flat)))

    return Case(cid, run, functions=["RDTrajectory.get_trajectory_point", "RDTrajectory.get_state",
                                     "RDTrajectory.get_trajectory", "RDTrajectory.nsamples", "RDTrajectory.nspecies",
                                     "RDTrajectory.ncells", "RDNetwork.get_species_index",
                                     "RDGridSpace.get_cell_index"])


def whole_state_case():
    cid = "whole-state-and-merge"
    P = "C17/" + cid

    def run(api):
        tr, net, g, N, data, times, dus, tus = mk_traj(api)
        n = g.n
        k = api.index("k", N)
        j = api.index("j", S_ * n)
        api.use_lemma("B", j, k, 0, S_ * n, N, 1)
        ws = api.call(lambda: tr.get_state(None, k))
        api.check(P + "/whole_state_ok", ws.ok, "raised %r" % (ws.exc,))
        if ws.ok:
            api.check(P + "/whole_state_len", api.eq(api.arr_len(ws.value.value), S_ * n))
            api.check(P + "/whole_state_is_contiguous_block",
                      api.eq(api.arr_get(ws.value.value, j), api.arr_get(data, k * S_ * n + j)))
        s = api.choice("s", S_)
        mg = api.call(lambda: tr.get_trajectory(s, merge=True))
        api.check(P + "/merge_ok", mg.ok, "raised %r" % (mg.exc,))
        if mg.ok:
            api.check(P + "/merge_len", api.eq(api.arr_len(mg.value.value), N))

            def term(i):
                return api.sel(data, k * S_ * n + s * n + i)
            if api.mode == "sym":
                api.use_lemma("B", 0, s, k, n, S_, N)
            api.check_sum(P + "/merge_is_sum_over_cells", api.arr_get(mg.value.value, k), 0, n, term)
            for kk in KINDS:
                api.check(P + "/merge_keeps_the_units_of_the_data." + kk, api.eq(mg.value.units.sys[kk], dus[kk]))
            api.check(P + "/merge_keeps_the_dimensions_of_the_data", Q.dims_equal(api, mg.value.units, tr.data.units))
        if ws.ok:
            for kk in KINDS:
                api.check(P + "/whole_state_keeps_the_units_of_the_data." + kk, api.eq(ws.value.units.sys[kk], dus[kk]))

    return Case(cid, run, functions=["RDTrajectory.get_state", "RDTrajectory.get_trajectory"])


def mono(api, times, i, j):
    """instance of sortedness: i <= j  =>  t[i] <= t[j]"""
    if api.mode == "conc":
        return
    api.assume(api.implies(api.le(i, j), api.le(api.sel(times, i), api.sel(times, j))))


def lookup_case(policy, query_form):
    cid = "lookup/%s/%s" % (policy, query_form)
    P = "C17/lookup/" + policy

    def run(api):
        U = api.mod("units")
        tr, net, g, N, data, times, dus, tus = mk_traj(api)
        if api.mode == "conc":
            srt = sorted(times)
            for i in range(len(times)):
                times[i] = srt[i]
            tr._t.value[:] = srt
        tsc = Q.scale(api, tus, TIME)
        if query_form == "number":
            q = api.real("q")
            qsi = api.num(q) * tsc
            qarg = q
        else:
            qus = M.mk_system(api, "qus")
            q = api.real("q")
            qarg = U.UnitValue(q, U.Units(qus, U.time_units_dimensions()))
            qsi = Q.si(api, qarg)

        def tsi(i):
            return api.num(api.sel(times, i)) * tsc

        out = api.call(lambda: tr.get_sample_index(qarg, policy))
        api.check(P + "/ok", out.ok, "raised %r" % (out.exc,))
        if not out.ok:
            return
        r = out.value
        j = api.index("j", N)            # arbitrary competitor
        last = N - 1
        for a, b in ((0, j), (j, last)):
            mono(api, times, a, b)
        if r is None:
            api.instantiate(j)
            if api.mode == "sym":
                # L-IVT instance (discrete intermediate value; proved in lemmas/Ivt.lean): if the query lies
                # between the first and the last time there is a window [k, k+1) containing it
                kk = api.index("ivt_k", N - 1) if api.truth(api.lt(1, N)) else 0
                if policy == "supeq":
                    api.lemma("L-IVT", api.implies(api.and_(api.lt(tsi(0), qsi), api.le(qsi, tsi(last))),
                                                   api.and_(api.lt(tsi(kk), qsi), api.le(qsi, tsi(kk + 1)))))
                else:
                    api.lemma("L-IVT", api.implies(api.and_(api.le(tsi(0), qsi), api.lt(qsi, tsi(last))),
                                                   api.and_(api.le(tsi(kk), qsi), api.lt(qsi, tsi(kk + 1)))))
                api.instantiate(kk)
                if not api.feasible():
                    # falling off the end of the search is impossible (pc |= False)
                    api.unreachable(P + "/search_always_answers_inside_the_time_range")
            if policy == "infeq":
                api.check(P + "/none_only_if_all_later", api.lt(qsi, tsi(j)))
            elif policy == "supeq":
                api.check(P + "/none_only_if_all_earlier", api.lt(tsi(j), qsi))
            else:
                api.unreachable(P + "/never_none_with_samples")
            return
        api.check(P + "/index_in_range", api.and_(api.le(0, r), api.lt(r, N)))
        if api.mode == "sym":
            api.assume(api.and_(api.le(0, r), api.lt(r, N)))
        for a, b in ((r, j), (j, r), (r + 1, j), (j, r + 1), (r - 1, j), (j, r - 1)):
            if api.mode == "sym":
                api.assume(api.implies(api.and_(api.le(0, a), api.lt(a, N), api.le(0, b), api.lt(b, N), api.le(a, b)),
                                       api.le(api.sel(times, a), api.sel(times, b))))
        api.instantiate(j)
        if api.mode == "sym":
            api.sorted_facts(times, extra=[j, r, 0, last])
        if policy == "infeq":
            api.check(P + "/not_after_query", api.le(tsi(r), qsi))
            # "the last sample not after it": among samples recorded at the same time, the one of highest index
            api.check(P + "/is_last_such", api.implies(api.le(tsi(j), qsi), api.le(j, r)))
        elif policy == "supeq":
            api.check(P + "/not_before_query", api.le(qsi, tsi(r)))
            # "the first sample not before it": among samples recorded at the same time, the one of lowest index
            api.check(P + "/is_first_such", api.implies(api.le(qsi, tsi(j)), api.le(r, j)))
        else:
            dr = abs_(api, tsi(r) - qsi)
            dj = abs_(api, tsi(j) - qsi)
            if api.mode == "sym":
                api.check(P + "/minimises_distance", api.le(dr, dj))
                api.check(P + "/ties_to_the_earlier", api.not_(api.and_(api.eq(dj, dr), api.lt(j, r))))
            else:
                # floats: distances that differ by rounding only are neither "smaller" nor "tied"
                tol = max(abs(dr), abs(dj)) * 1e-9
                api.check(P + "/minimises_distance", dr <= dj + tol)
                if dj == dr and query_form == "number":
                    api.check(P + "/ties_to_the_earlier", not (j < r))

    return Case(cid, run, functions=["RDTrajectory.get_sample_index", "RDTrajectory._get_sample_index_" + policy,
                                     "UnitValue.__init__ (convert)", "UnitValue comparisons"], max_paths=20000)


def abs_(api, x):
    return api.ite(api.le(0, x), x, -x)


def bad_policy_case(api):
    U = api.mod("units")
    R = api.mod("rdsystem")
    N = api.mod("rdnetwork")
    O = api.mod("rdoutput")
    net = N.RDNetwork([N.Species("A")], [])
    tr = O.RDTrajectory(U.UnitArray([1.0, 2.0], "molecule"), U.UnitArray([0.0, 1.0], "s"), R.RDSystem(net))
    for pol in ("nearest", "", "Closest"):
        try:
            tr.get_sample_index(0.5, pol)
            api.check("C17/lookup/unknown-policy-raises/%s" % pol, False)
        except Exception:
            api.check("C17/lookup/unknown-policy-raises/%s" % pol, True)
    empty = O.RDTrajectory(U.UnitArray([], "molecule"), U.UnitArray([], "s"), R.RDSystem(net))
    for pol in ("closest", "infeq", "supeq"):
        api.check("C17/lookup/empty-gives-none/" + pol, empty.get_sample_index(1.0, pol) is None)
    for bad in (2, -3, (5, 0, 0)):
        try:
            tr.get_trajectory_point("A", 0, bad)
            api.check("C17/point/position-outside-raises/%r" % (bad,), False)
        except Exception:
            api.check("C17/point/position-outside-raises/%r" % (bad,), True)
    for bad in ("Z", 4):
        try:
            tr.get_trajectory_point(bad, 0, 0)
            api.check("C17/point/unknown-species-raises/%r" % (bad,), False)
        except Exception:
            api.check("C17/point/unknown-species-raises/%r" % (bad,), True)


CASES = []
for _sf in ("index", "label", "object"):
    for _pf in ("index", "tuple"):
        CASES.append(point_case(_sf, _pf))
CASES.append(whole_state_case())
for _p in ("infeq", "supeq", "closest"):
    for _q in ("number", "quantity"):
        CASES.append(lookup_case(_p, _q))
CASES.append(Case("finite/policy-empty-invalid", bad_policy_case, functions=["RDTrajectory.get_sample_index"],
                  sym=False))


# cells addressed by index, tuple or coordinate object resolve to the same entry (C13's accessor cases, symbolic grid shape)
from props import C13 as _C13
for _pf in ("index", "tuple", "object"):
    CASES.append(_C13.accessor_case("label", _pf))

from vc.core.leanstep import lean_step as _lean_step
EXTRA = [_lean_step("Ivt.lean", "C17", ["L_IVT", "L_IVT'"])]
