"""C01  Deterministic rate law: mass-action reactions plus Bernstein diffusion (Python side).

Under contract: kinetics.compute_reaction_rates, compute_diffusion_rates, _compute_dspeciesdt_grid,
_compute_dspeciesdt_graph, compute_dspeciesdt, compute_dstatedt, RDSystem.make_dxdtf (and the closure it
returns), Reaction.ssto/psto/kf_units_dimensions, get_value_in_env.
The engine side (Euler step, matrix builders, the ctypes seam) is in props/C01 'engine/*' cases once the
C++ front end covers it (see MANIFEST level_note).
"""
from vc.core.runner import Case
from vc.core.api import KINDS
from spec import quant as Q
from spec import model as M
from spec import ratelaw as RL
from spec import gridlemmas as GL

META = {
    "level": "proof",
    "trusted_base": ["vc/pysym", "z3 / cvc5"],
    "assumptions": ["A1 floats are reals; V^(1/3) is the positive real cube root (A3)",
                    "structure enumerated: reaction orders 0..4 per side (the property's own bound) over 2 reactant and "
                    "2 product species, S = 3 species, E = 2 environments; cells, positions, state, volumes, constants and "
                    "all unit systems symbolic",
                    "amounts are non-negative, volumes, surfaces and distances positive"],
}

QTY = M.dims_of("quantity")
VOL = M.dims_of("volume")
DCOEF = M.dims_of("D")
RATE = {"space": 0, "time": -1, "quantity": 1}
SIDES = [(0, 0), (1, 0), (2, 0), (1, 1), (3, 0), (2, 1), (4, 0), (2, 2), (1, 3)]


def k_dims(order):
    return {"space": 3 * order - 3, "time": -1, "quantity": 1 - order}


def env_si(api, ev, envs, e, us, dim):
    """SI value of a per-environment constant in the environment with (symbolic) index e; 0 when absent"""
    r = 0
    E = len(envs)
    for k in reversed(range(E)):
        v = ev.lookup(envs[k])
        si = M.si_number(api, v, us, dim) if v is not None else 0
        r = si if k == E - 1 else api.ite(api.eq(e, k), si, r)
    return r


def mk_system_grid(api, net, E, dims=None):
    R = api.mod("rdsystem")
    g = M.mk_grid(api, E=E, dims=dims)
    sys_us = M.mk_system(api, "sys")
    n = g.n
    st = api.array("st", net.S * n)
    if api.mode == "sym":
        st.constrain(lambda e: e >= 0)
    else:
        st = [abs(v) for v in st]
    ch = api.array("ch", net.S * n, sort="int")
    system = R.RDSystem(net.obj, g.obj, state=st, chemostats=ch, units_system=sys_us)
    return system, g, st, ch, sys_us


def reaction_rates_case(sub, prod, kshape):
    cid = "reaction_rates/%d%d-%d%d/%s" % (sub + prod + (kshape.replace("dict:", ""),))
    P = "C01/reaction_rates"

    def run(api):
        K = api.mod("kinetics")
        eq = "%d A + %d B -> %d C + %d A" % (sub + prod)
        E = 2
        net = M.mk_network(api, S=3, E=E, reactions=[(eq, kshape, "scalar" if kshape != "scalar" else "dict:e1,default")],
                           species_units=False)
        system, g, st, ch, sys_us = mk_system_grid(api, net, E)
        out_us = M.mk_system(api, "out")
        n = g.n
        i = api.index("i", n)
        e = g.env(i)
        out = api.call(lambda: K.compute_reaction_rates(system, system.network.reactions[0], i, None, out_us))
        api.check(P + "/no_raise", out.ok, "raised %r" % (out.exc,))
        if not out.ok:
            return
        rf, rr = out.value
        kf, kr, rus = net.rk[0]
        nf = sub[0] + sub[1]
        nr = prod[0] + prod[1]
        V = M.si_number(api, g.vol, g.us, VOL)
        sc = Q.scale(api, sys_us, QTY)
        xs = [api.num(api.sel(st, j * n + i)) * sc for j in range(3)]
        ssto = [sub[0] + 0, sub[1], 0]
        psto = [prod[1], 0, prod[0]]
        kf_si = env_si(api, kf, net.envs, e, rus, k_dims(nf))
        kr_si = env_si(api, kr, net.envs, e, rus, k_dims(nr))
        api.check(P + "/forward_rate", api.eq(Q.si(api, rf), RL.rate(kf_si, V, xs, ssto)))
        api.check(P + "/reverse_rate", api.eq(Q.si(api, rr), RL.rate(kr_si, V, xs, psto)))
        for r_, nm in ((rf, "forward"), (rr, "reverse")):
            for kk in KINDS:
                api.check("%s/%s_dim.%s" % (P, nm, kk), api.eq(r_.units.dim[kk], RATE[kk]))
                api.check("%s/%s_sys.%s" % (P, nm, kk), api.eq(r_.units.sys[kk], out_us[kk]))

    return Case(cid, run, functions=["compute_reaction_rates", "Reaction.ssto", "Reaction.psto",
                                     "Reaction.kf_units_dimensions", "Reaction.kr_units_dimensions",
                                     "get_value_in_env", "RDSystem.get_state_index", "UnitValue.__pow__"])


NEIGH = [(1, 0, 0), (-1, 0, 0), (0, 1, 0), (0, -1, 0), (0, 0, 1), (0, 0, -1)]


def neighbor_of(api, g, x, y, z, k):
    """k-th candidate neighbour of (x,y,z) with wrap on periodic axes; returns coords and 'exists' condition"""
    d = NEIGH[k]
    ax = [abs(v) for v in d].index(1)
    size = (g.w, g.h, g.d)[ax]
    c = [x, y, z]
    v = c[ax] + d[ax]
    inside = api.and_(api.le(0, v), api.lt(v, size))
    per = api.eq(g.bc["xyz"[ax]], "periodical")
    wrapped = api.ite(api.lt(v, 0), v + size, api.ite(api.le(size, v), v - size, v))
    c2 = list(c)
    c2[ax] = api.ite(inside, v, wrapped)
    exists = api.or_(inside, api.and_(per, api.lt(1, size)))
    return tuple(c2), exists


def diffusion_rates_grid_case(dshape, neighbours=True):
    """positions are cell indices; RDGridSpace.are_neighbors is replaced by its contract (verified
    in C15: true iff the cells are one wrap-aware step apart), so no grid arithmetic is repeated here"""
    cid = "diffusion_rates/grid/%s%s" % (dshape.replace("dict:", ""), "" if neighbours else "/non-neighbours")
    P = "C01/diffusion_rates/grid"

    def run(api):
        K = api.mod("kinetics")
        E = 2
        net = M.mk_network(api, S=2, E=E, D_shapes=["scalar", dshape], species_units=True)
        system, g, st, ch, sys_us = mk_system_grid(api, net, E)
        out_us = M.mk_system(api, "out")
        n = g.n
        i = api.index("ci", n)
        j = api.index("cj", n)
        api.assume(api.not_(api.eq(i, j)))
        calls = []
        if api.mode == "sym":
            def stub(p1, p2):
                calls.append((p1, p2))
                return neighbours
            g.obj.are_neighbors = stub
        else:
            # concrete replay on the untouched code: pick an actual neighbour pair / non-neighbour pair
            nbs = g.obj.get_neighbors(i)
            if neighbours:
                cand = [c for c in nbs if c != i]
                if not cand:
                    from vc.core.api import CaseSkip
                    raise CaseSkip("cell without neighbour")
                j = cand[api.int("pick", 0, 5) % len(cand)]
            else:
                cand = [c for c in range(n) if c != i and c not in nbs]
                if not cand:
                    from vc.core.api import CaseSkip
                    raise CaseSkip("all cells are neighbours")
                j = cand[api.int("pick", 0, 5) % len(cand)]
        s = 1
        out = api.call(lambda: K.compute_diffusion_rates(system, M.SPECIES[s], i, j, None, out_us))
        if not neighbours:
            api.check(P + "/non_neighbours_refused", not out.ok)
            return
        api.check(P + "/no_raise", out.ok, "raised %r" % (out.exc,))
        if not out.ok:
            return
        if api.mode == "sym":
            api.check(P + "/neighbour_test_on_the_two_cells",
                      len(calls) >= 1 and api.truth(api.and_(api.eq(calls[0][0], i), api.eq(calls[0][1], j))))
        r_out, r_in = out.value
        ei, ej = g.env(i), g.env(j)
        Di = env_si(api, net.D[s], net.envs, ei, net.sp_us[s], DCOEF)
        Dj = env_si(api, net.D[s], net.envs, ej, net.sp_us[s], DCOEF)
        V = M.si_number(api, g.vol, g.us, VOL)
        kap = RL.kappa_grid(api, Di, Dj, V)
        sc = Q.scale(api, sys_us, QTY)
        xi = api.num(api.sel(st, s * n + i)) * sc
        xj = api.num(api.sel(st, s * n + j)) * sc
        api.check(P + "/outgoing", api.eq(Q.si(api, r_out), kap * xi))
        api.check(P + "/incoming", api.eq(Q.si(api, r_in), kap * xj))
        for r_, nm in ((r_out, "outgoing"), (r_in, "incoming")):
            for kk in KINDS:
                api.check("%s/%s_dim.%s" % (P, nm, kk), api.eq(r_.units.dim[kk], RATE[kk]))
                api.check("%s/%s_sys.%s" % (P, nm, kk), api.eq(r_.units.sys[kk], out_us[kk]))

    return Case(cid, run, functions=["compute_diffusion_rates", "get_value_in_env", "RDSystem.get_state_index",
                                     "UnitValue.__pow__", "UnitValue.__rtruediv__"], max_paths=20000)


def diffusion_rates_graph_case(which, rev):
    cid = "diffusion_rates/graph/edge%d%s" % (which, "r" if rev else "")
    P = "C01/diffusion_rates/graph"

    def run(api):
        K = api.mod("kinetics")
        R = api.mod("rdsystem")
        E = 2
        net = M.mk_network(api, S=2, E=E, D_shapes=["scalar", "dict:e0,default"], species_units=True)
        g = M.mk_graph(api, N=3, edges=((0, 1), (2, 1)), E=E, own_units_nodes=(0, 2), own_units_edges=(which,))
        sys_us = M.mk_system(api, "sys")
        st = api.array("st", 2 * 3, positive=False)
        st = [api.ite(api.le(0, v), v, -v) for v in st] if api.mode == "sym" else [abs(v) for v in st]
        system = R.RDSystem(net.obj, g.obj, state=st, chemostats=[0] * 6, units_system=sys_us)
        out_us = M.mk_system(api, "out")
        (a, b, sf, ds, eus) = g.edges[which]
        src, dst = (a, b) if rev == 0 else (b, a)
        s = 1
        out = api.call(lambda: K.compute_diffusion_rates(system, s, src, dst, None, out_us))
        api.check(P + "/no_raise", out.ok, "raised %r" % (out.exc,))
        if not out.ok:
            return
        r_out, r_in = out.value
        Di = env_si(api, net.D[s], net.envs, g.envs[src], net.sp_us[s], DCOEF)
        Dj = env_si(api, net.D[s], net.envs, g.envs[dst], net.sp_us[s], DCOEF)
        Vi = M.si_number(api, g.vols[src], g.node_us[src], VOL)
        Vj = M.si_number(api, g.vols[dst], g.node_us[dst], VOL)
        S_ = M.si_number(api, sf, eus, M.dims_of("surface"))
        d_ = M.si_number(api, ds, eus, M.dims_of("distance"))
        sc = Q.scale(api, sys_us, QTY)
        xi = api.num(st[s * 3 + src]) * sc
        xj = api.num(st[s * 3 + dst]) * sc
        api.check(P + "/outgoing", api.eq(Q.si(api, r_out), RL.kappa(api, Di, Dj, Vi, Vj, S_, d_) * xi))
        api.check(P + "/incoming", api.eq(Q.si(api, r_in), RL.kappa(api, Dj, Di, Vj, Vi, S_, d_) * xj))
        for r_, nm in ((r_out, "outgoing"), (r_in, "incoming")):
            for kk in KINDS:
                api.check("%s/%s_dim.%s" % (P, nm, kk), api.eq(r_.units.dim[kk], RATE[kk]))
        # non-neighbours are refused
        bad = api.call(lambda: K.compute_diffusion_rates(system, s, 0, 2, None, out_us))
        api.check(P + "/non_neighbours_refused", not bad.ok)

    return Case(cid, run, functions=["compute_diffusion_rates", "RDGraphSpace.get_edge",
                                     "RDGraphSpace.get_cell_vol_array"], max_paths=20000)


CASES = []
for _k, _s in enumerate(SIDES):
    CASES.append(reaction_rates_case(_s, (1, 1), ["scalar", "dict:e0,default", "dict:e0"][_k % 3]))
for _k, _s in enumerate(SIDES):
    if _s != (1, 1):
        CASES.append(reaction_rates_case((1, 0), _s, ["dict:e0,default", "scalar", "dict:default"][_k % 3]))
for _d in ("scalar", "dict:e0,default", "dict:e0"):
    CASES.append(diffusion_rates_grid_case(_d))
CASES.append(diffusion_rates_grid_case("scalar", neighbours=False))
for _w in (0, 1):
    for _r in (0, 1):
        CASES.append(diffusion_rates_graph_case(_w, _r))


# ---------------------------------------------------------------------------
# per-entry rate of change: callees replaced by their contracts (modular)
class Stubs:
    """compute_reaction_rates / compute_diffusion_rates replaced by their (separately verified) contracts:
    fresh symbolic results of dimension amount/time in the requested units system; calls are recorded"""

    def __init__(self, api, K, out_us):
        self.api, self.K, self.out_us = api, K, out_us
        self.rr_calls, self.dr_calls = [], []
        self.saved = (K.compute_reaction_rates, K.compute_diffusion_rates)

    def install(self):
        api, U = self.api, self.api.mod("units")
        units = U.Units(self.out_us, U.UnitsDimensions(0, -1, 1))

        def rr(system, reaction, position=0, state=None, units_system=None):
            k = len(self.rr_calls)
            f, r = api.real("rf%d" % k), api.real("rr%d" % k)
            self.rr_calls.append((reaction, position, state, units_system, f, r))
            return U.UnitValue(f, units), U.UnitValue(r, units)

        def dr(system, species, src_position, dst_position, state=None, units_system=None):
            k = len(self.dr_calls)
            o, i = api.real("dout%d" % k), api.real("din%d" % k)
            self.dr_calls.append((species, src_position, dst_position, state, units_system, o, i))
            return U.UnitValue(o, units), U.UnitValue(i, units)

        self.K.compute_reaction_rates = rr
        self.K.compute_diffusion_rates = dr

    def remove(self):
        self.K.compute_reaction_rates, self.K.compute_diffusion_rates = self.saved


REACTIONS2 = [("A + B -> 2 B", "scalar", "scalar"), ("2 B -> A", "scalar", "scalar")]
STO2 = {0: [-1, 1], 1: [1, -2]}         # net change of species s per reaction (products - substrates)


def dspeciesdt_grid_case(nreac, s, apply_chst, shape="full", thorough_only=False, prop="C01"):
    """shape: 'x' / 'y' / 'z' = grid extended along that axis only (other sizes 1): all boundary situations
    of that axis; 'interior' = 3-D grid, cell with all six neighbours inside; 'full' = everything at once"""
    cid = "dspeciesdt/grid-%s/R%d/species%d/%s" % (shape, nreac, s, "chemostats" if apply_chst else "no-chemostats")
    P = prop + "/dspeciesdt/grid"

    def run(api):
        if api.mode == "conc":
            return dspeciesdt_concrete(api, "grid", nreac, s, apply_chst, P, shape)
        K = api.mod("kinetics")
        E = 1
        net = M.mk_network(api, S=2, E=E, reactions=REACTIONS2[:nreac], species_units=False)
        dims = None
        if shape in ("x", "y", "z"):
            L = api.int("len", 1, 10**6)
            dims = tuple(L if ax == shape else 1 for ax in "xyz")
        system, g, st, ch, sys_us = mk_system_grid(api, net, E, dims=dims)
        out_us = M.mk_system(api, "out")
        n = g.n
        x = api.int("px", 0, 10**6) if shape in ("x", "interior", "full") else 0
        y = api.int("py", 0, 10**6) if shape in ("y", "interior", "full") else 0
        z = api.int("pz", 0, 10**6) if shape in ("z", "interior", "full") else 0
        api.assume(api.and_(api.lt(x, g.w), api.lt(y, g.h), api.lt(z, g.d)))
        if shape == "interior":
            api.assume(api.and_(api.lt(0, x), api.lt(x, g.w - 1), api.lt(0, y), api.lt(y, g.h - 1),
                                api.lt(0, z), api.lt(z, g.d - 1)))
        i = GL.coords_to_index(api, g, x, y, z)
        for (size, v) in ((g.w, x), (g.h, y), (g.d, z)):
            if not isinstance(size, int):
                GL.wrap_facts(api, size, v + 1)
                GL.wrap_facts(api, size, v - 1)
        stubs = Stubs(api, K, out_us)
        stubs.install()
        try:
            out = api.call(lambda: K.compute_dspeciesdt(system, s, (x, y, z), None, apply_chst, out_us))
        finally:
            stubs.remove()
        api.check(P + "/returns_a_quantity", out.ok, "raised %r" % (out.exc,))
        if not out.ok:
            return
        d = out.value
        for kk in KINDS:
            api.check(P + "/dim." + kk, api.eq(d.units.dim[kk], RATE[kk]))
            api.check(P + "/sys." + kk, api.eq(d.units.sys[kk], out_us[kk]))
        # the callees were asked for the right things
        api.check(P + "/one_rate_request_per_reaction", len(stubs.rr_calls) == nreac)
        for k, c in enumerate(stubs.rr_calls):
            api.check(P + "/rate_request_reaction", c[0] is system.network.reactions[k])
        # neighbours: the spec's candidate list, in order
        exp = []
        for k in range(6):
            (c2, exists) = neighbor_of(api, g, x, y, z, k)
            exp.append((c2, exists))
        idx = 0
        total = 0
        for k, (c2, exists) in enumerate(exp):
            if api.truth(exists):
                ok = idx < len(stubs.dr_calls)
                api.check(P + "/exchange_with_every_neighbour", ok)
                if not ok:
                    return
                call = stubs.dr_calls[idx]
                idx += 1
                api.check(P + "/exchange_source_is_the_cell",
                          api.and_(api.eq(call[1][0], x), api.eq(call[1][1], y), api.eq(call[1][2], z)))
                api.check(P + "/exchange_partner_is_the_neighbour",
                          api.and_(api.eq(call[2][0], c2[0]), api.eq(call[2][1], c2[1]), api.eq(call[2][2], c2[2])))
                total = total + (call[6] - call[5])
        api.check(P + "/no_exchange_with_non_neighbours", idx == len(stubs.dr_calls))
        for k, c in enumerate(stubs.rr_calls):
            total = total + (c[4] - c[5]) * STO2[k][s]
        flag = api.sel(ch, s * n + i)
        expected = api.ite(api.and_(apply_chst, api.not_(api.eq(flag, 0))), 0, total) if apply_chst else total
        api.check(P + "/value", api.eq(d.value, expected))

    return Case(cid, run, functions=["_compute_dspeciesdt_grid", "compute_dspeciesdt", "RDGridSpace.is_within_bounds",
                                     "RDGridSpace.get_cell_coordinates", "Reaction.get_product_stoichiometry",
                                     "Reaction.get_substrate_stoichiometry"], max_paths=20000,
                thorough_only=thorough_only)


def dspeciesdt_concrete(api, kind, nreac, s, apply_chst, P, shape="full"):
    """concrete mode (untouched code, no stubs): the same statement composed from the real callees"""
    K = api.mod("kinetics")
    R = api.mod("rdsystem")
    E = 1
    net = M.mk_network(api, S=2, E=E, reactions=REACTIONS2[:nreac], species_units=False)
    out_us = M.mk_system(api, "out")
    if kind == "grid":
        dims = None
        if shape in ("x", "y", "z"):
            L = api.int("len", 1, 10**6, draw=(1, 4))
            dims = tuple(L if ax == shape else 1 for ax in "xyz")
        system, g, st, ch, sys_us = mk_system_grid(api, net, E, dims=dims)
        ch = [abs(int(v)) % 2 for v in ch]
        system.chemostats = ch
        n = g.n
        i = api.int("cell", 0, n - 1)
        nbs = [c for c in g.obj.get_neighbors(i)]
    else:
        g = M.mk_graph(api, N=3, edges=((0, 1), (2, 1)), E=E)
        st = [abs(v) for v in api.array("st", 6)]
        ch = [abs(int(v)) % 2 for v in api.array("ch", 6, sort="int")]
        system = R.RDSystem(net.obj, g.obj, state=st, chemostats=ch, units_system=M.mk_system(api, "sys"))
        n = 3
        i = api.int("cell", 0, 2)
        nbs = g.obj.get_neighbors(i)
    out = api.call(lambda: K.compute_dspeciesdt(system, s, i, None, apply_chst, out_us))
    api.check(P + "/returns_a_quantity", out.ok, "raised %r" % (out.exc,))
    if not out.ok:
        return
    total = 0
    for k in range(nreac):
        rf, rr = K.compute_reaction_rates(system, system.network.reactions[k], i, None, out_us)
        total = total + (api.num(rf.value) - api.num(rr.value)) * STO2[k][s]
    for c in nbs:
        if c == i:
            continue
        o, inn = K.compute_diffusion_rates(system, s, i, c, None, out_us)
        total = total + (api.num(inn.value) - api.num(o.value))
    if apply_chst and ch[s * n + i]:
        total = 0
    d = out.value
    if total == 0:
        api.check(P + "/value", abs(d.value) < 1e-300 or api.close(d.value, 0))
    else:
        api.check(P + "/value", api.close(d.value, total))
    for kk in KINDS:
        api.check(P + "/dim." + kk, d.units.dim[kk] == RATE[kk])


def dspeciesdt_graph_case(nreac, s, apply_chst, prop="C01"):
    cid = "dspeciesdt/graph/R%d/species%d/%s" % (nreac, s, "chemostats" if apply_chst else "no-chemostats")
    P = prop + "/dspeciesdt/graph"
    EDGES = ((0, 1), (2, 1))

    def run(api):
        if api.mode == "conc":
            return dspeciesdt_concrete(api, "graph", nreac, s, apply_chst, P)
        K = api.mod("kinetics")
        R = api.mod("rdsystem")
        net = M.mk_network(api, S=2, E=1, reactions=REACTIONS2[:nreac], species_units=False)
        g = M.mk_graph(api, N=3, edges=EDGES, E=1, node_units=False)
        st = api.array("st", 6)
        ch = [api.int("ch%d" % k, 0, 1) for k in range(6)]
        system = R.RDSystem(net.obj, g.obj, state=st, chemostats=[0] * 6, units_system=M.mk_system(api, "sys"))
        system._chemostats = ch
        out_us = M.mk_system(api, "out")
        i = api.choice("cell", 3)
        stubs = Stubs(api, K, out_us)
        stubs.install()
        try:
            out = api.call(lambda: K.compute_dspeciesdt(system, s, i, None, apply_chst, out_us))
        finally:
            stubs.remove()
        api.check(P + "/returns_a_quantity", out.ok, "raised %r" % (out.exc,))
        if not out.ok:
            return
        d = out.value
        for kk in KINDS:
            api.check(P + "/dim." + kk, api.eq(d.units.dim[kk], RATE[kk]))
        nb = sorted({b if a == i else a for (a, b) in EDGES if i in (a, b)})
        got = [c[2] for c in stubs.dr_calls]
        api.check(P + "/exchange_with_exactly_the_neighbours", sorted(got) == nb and all(c[1] == i for c in stubs.dr_calls))
        api.check(P + "/one_rate_request_per_reaction", len(stubs.rr_calls) == nreac)
        total = 0
        for c in stubs.dr_calls:
            total = total + (c[6] - c[5])
        for k, c in enumerate(stubs.rr_calls):
            total = total + (c[4] - c[5]) * STO2[k][s]
        flag = ch[s * 3 + i]
        expected = api.ite(api.not_(api.eq(flag, 0)), 0, total) if apply_chst else total
        api.check(P + "/value", api.eq(d.value, expected))

    return Case(cid, run, functions=["_compute_dspeciesdt_graph", "compute_dspeciesdt", "RDGraphSpace.get_edge"])


for _n in (0, 2):
    for _s in (0, 1):
        for _c in (True, False):
            if _n == 0 and not _c:
                continue
            CASES.append(dspeciesdt_graph_case(_n, _s, _c))
for _sh in ("x", "y", "z"):
    CASES.append(dspeciesdt_grid_case(2, 1, True, _sh))
    CASES.append(dspeciesdt_grid_case(0, 0, True, _sh))
CASES.append(dspeciesdt_grid_case(2, 1, True, "interior", thorough_only=True))
# 3-D grids at once: concrete runs of the same statement on the untouched code (bounded stand-in)
_full = dspeciesdt_grid_case(2, 1, True, "full")
CASES.append(Case("dspeciesdt/grid-3d/random-concrete", _full.fn, functions=_full.functions, sym=False, random_runs=60,
                  bounded="60 random 3-D grids (w,h<=3, d<=2), all boundary combinations drawn at random"))
CASES.append(dspeciesdt_grid_case(2, 0, False, "x"))
CASES.append(dspeciesdt_grid_case(2, 0, True, "z"))
CASES.append(dspeciesdt_grid_case(2, 1, True, "full", thorough_only=True))


# ---------------------------------------------------------------------------
# ODE right-hand side exported for external integrators
def dxdtf_case(sub, prod, prop="C01", E=1):
    """E = 2: the single cell lies in either environment (symbolic index), the constants are those of that environment"""
    cid = "make_dxdtf/%d%d-%d%d" % (sub + prod) + ("" if E == 1 else "/E%d" % E)
    P = prop + "/make_dxdtf"

    def run(api):
        R = api.mod("rdsystem")
        eq1 = "%d A + %d B -> %d C + %d A" % (sub + prod)
        net = M.mk_network(api, S=3, E=E, reactions=[(eq1, "scalar" if E == 1 else "dict:e0,default", "scalar"),
                                                     ("C -> B", "dict:e0", "dict:default")], species_units=False)
        g = M.mk_grid(api, E=E, env_form="scalar", dims=(1, 1, 1))
        flags = [api.int("flag%d" % k, 0, 1) for k in range(3)]
        system = R.RDSystem(net.obj, g.obj, chemostats=list(flags), units_system=M.mk_system(api, "sys"))
        out_us = M.mk_system(api, "out")
        mk = api.call(lambda: system.make_dxdtf(units_system=out_us))
        api.check(P + "/built", mk.ok, "raised %r" % (mk.exc,))
        if not mk.ok:
            return
        x = [api.real("x%d" % k, lo=0, hi=10**9) for k in range(3)]
        out = api.call(lambda: mk.value(0.0, list(x)))
        api.check(P + "/evaluates", out.ok, "raised %r" % (out.exc,))
        if not out.ok:
            return
        dx = out.value
        V = M.si_number(api, g.vol, g.us, VOL)
        qs = Q.scale(api, out_us, QTY)
        rs = Q.scale(api, out_us, RATE)
        xs = [api.num(v) * qs for v in x]
        ssto = [[sub[0], sub[1], 0], [0, 0, 1]]
        psto = [[prod[1], 0, prod[0]], [0, 1, 0]]
        law = [0, 0, 0]
        for r in range(2):
            kf, kr, rus = net.rk[r]
            nf, nr = sum(ssto[r]), sum(psto[r])
            kf_si = env_si(api, kf, net.envs, g.env0, rus, k_dims(nf))
            kr_si = env_si(api, kr, net.envs, g.env0, rus, k_dims(nr))
            net_rate = RL.rate(kf_si, V, xs, ssto[r]) - RL.rate(kr_si, V, xs, psto[r])
            for s in range(3):
                law[s] = law[s] + (psto[r][s] - ssto[r][s]) * net_rate
        api.check(P + "/length", len(dx) == 3)
        for s in range(3):
            exp = api.ite(api.eq(flags[s], 0), law[s], 0)
            api.check(P + "/rate_law_species%d" % s, api.eq(api.num(dx[s]) * rs, exp))

    return Case(cid, run, functions=["RDSystem.make_dxdtf", "make_dxdtf.<locals>.dxdtf", "Reaction.split",
                                     "Reaction.ssto", "Reaction.dsto", "Reaction.order", "get_value_in_env"])


def not_single_cell_case(api):
    R = api.mod("rdsystem")
    N = api.mod("rdnetwork")
    G = api.mod("rdgridspace")
    s = R.RDSystem(N.RDNetwork([N.Species("A")], []), G.RDGridSpace(w=2))
    try:
        s.make_dxdtf()
        api.check("C01/make_dxdtf/refuses_more_than_one_cell", False)
    except NotImplementedError:
        api.check("C01/make_dxdtf/refuses_more_than_one_cell", True)


def dstatedt_layout_case(api):
    """compute_dstatedt: species-major concatenation of compute_dspeciesdt (bounded: small concrete systems)"""
    K = api.mod("kinetics")
    R = api.mod("rdsystem")
    N = api.mod("rdnetwork")
    G = api.mod("rdgridspace")
    U = api.mod("units")
    P = "C01/dstatedt"
    import itertools
    for (w, h, d), S in itertools.product(((1, 1, 1), (2, 1, 1), (2, 2, 1), (3, 1, 2)), (1, 2, 3)):
        sp = [N.Species("ABC"[k], D=0.5 + k, density=1 + k) for k in range(S)]
        rs = [N.Reaction("A -> ", kf=0.3)] + ([N.Reaction("A + B -> 2 B", kf=0.01, kr=0.2)] if S > 1 else [])
        net = N.RDNetwork(sp, rs)
        system = R.RDSystem(net, G.RDGridSpace(w=w, h=h, d=d, boundary_conditions={"x": "periodical"}),
                            chemostats=[(k % 3 == 1) for k in range(S * w * h * d)])
        us = U.UnitsSystem(space="mm", time="min", quantity="mol")
        for chst in (True, False):
            out = K.compute_dstatedt(system, None, chst, us)
            n = w * h * d
            ok = len(out) == S * n
            for s in range(S):
                for i in range(n):
                    ref = K.compute_dspeciesdt(system, s, i, None, chst, us)
                    ok = ok and api.close(out.value[s * n + i], ref.value) if ref.value != 0 else ok and out.value[s * n + i] == 0
            api.check("%s/%dx%dx%d/S%d/%s" % (P, w, h, d, S, chst), ok and out.units.dim == {"space": 0, "time": -1, "quantity": 1}
                      and out.units.sys == us)


for _s, _p in (((1, 1), (1, 0)), ((2, 0), (0, 1)), ((0, 0), (1, 1)), ((2, 1), (0, 0)), ((1, 3), (2, 2)), ((4, 0), (0, 3))):
    CASES.append(dxdtf_case(_s, _p))
# the single cell in a second environment, constants given per environment with a 'default' fallback
CASES.append(dxdtf_case((1, 1), (1, 0), E=2))
CASES.append(dxdtf_case((2, 0), (0, 1), E=2))
CASES.append(Case("make_dxdtf/multi-cell-refused", not_single_cell_case, functions=["RDSystem.make_dxdtf"], sym=False))
CASES.append(Case("dstatedt/layout-bounded", dstatedt_layout_case, functions=["compute_dstatedt"], sym=False,
                  bounded="grids 1x1x1, 2x1x1, 2x2x1, 3x1x2 with 1-3 species, both chemostat modes (exhaustive over this list)"))

# engine side (real C++): constants derived by the engine and its deterministic reaction rate
from props import C01_engine as _ENG
CASES += _ENG.cases("C01")


def LATE_CASES():
    """"diffusive exchange with every neighbouring cell" in one step of the Euler engine on a grid: the engine's neighbour table
    is the grid's relation for every shape and boundary setting (GetNeighborIndex / BuildMeshNeighbors contracts of C02)"""
    try:
        import z3 as _z3c
    except ImportError:
        return []
    from props import C02 as _C02
    return [_C02.build_neighbors_case()] + [_C02.pairing_grid_case(_n) for _n in range(6)]
