"""C11  The native engine is memory-safe on every valid script.

The C++ sources of the working tree are read through clang's typed AST and interpreted symbolically
(vc/cppsym).  Run-time-error obligations are generated at every vector / buffer subscript, integer
division, delete, library precondition and read of an uninitialised scalar, for
   - Init of the six algorithm classes from the ABI precondition (establishes the class invariant),
   - Iterate and Sample of the six classes from an arbitrary object satisfying the class invariant
     (every helper they call is executed inline: Compute_*/Apply_*/ReactionRate/.../SamplingStep/CheckTMax),
   - the free functions and the exported C API (typestate of the globals).
Loops are cut by invariants (automatic counter bounds + sidecar content invariants).
Counter-examples are replayed by running concrete scenarios through the real engine built with
ASan + UBSan + _GLIBCXX_ASSERTIONS.
"""
from vc.core.runner import Case
try:
    import z3
    from vc.cppsym import contracts as K
    from vc.cppsym.interp import Frame, Vec, Vec2, Ptr, Obj, ObjPtr, Str, Undef
except ImportError:          # concrete runner (no z3 in the interpreter of the test suite): cases are symbolic-only
    z3 = None
    from vc.cppsym import names as K

META = {
    "level": "proof",
    "trusted_base": ["clang 14 AST (-ast-dump=json) as the reading of the C++ text (A6)",
                     "vc/cppsym interpreter of the C++ subset; libstdc++ replaced by contracts (vector value semantics, "
                     "poisson/normal/uniform distributions, mt19937, pow/floor/log/sqrt)", "z3 / cvc5"],
    "assumptions": ["A1 double = real, int = mathematical integer; A9: sizes and event counts fit in int (no overflow obligation)",
                    "A2 distribution objects return values in their documented range",
                    "ABI precondition of Init (lengths, index ranges of environment map and edge end points, positive "
                    "volumes and time step) is what LibRDEngine marshals for a valid script",
                    "A7 single-threaded use"],
}

_PROG = {}


def program():
    from vc.cppsym.ast import Program
    import os
    key = os.environ.get("VERIF_REPO", "/repo")
    if key not in _PROG:
        _PROG[key] = Program()
    return _PROG[key]


def method_case(cls, meth, prop="C11"):
    cid = "%s/%s" % (cls, meth)

    def run(api):
        prog = program()
        I = K.make_interp(prog, api.ctx, prop, loop_inv=K.LOOP_INV)
        o = K.valid_object(I, cls)
        K.assume_content_invariants(I, o)
        fn, _ = prog.method(cls, meth)
        I.call(fn, o, [], fn, Frame("top"))
        K.check_inv(I, o, "%s/%s::%s" % (prop, cls, meth))
        api.check("%s/%s::%s/completed" % (prop, cls, meth), True)

    return Case(cid, run, functions=["%s::%s (+ inlined callees)" % (cls, meth)], conc=False, max_paths=4000)


def init_case(cls, prop="C11"):
    cid = "%s/Init" % cls

    def run(api):
        prog = program()
        I = K.make_interp(prog, api.ctx, prop, loop_inv=K.LOOP_INV)
        o = I.new_object(cls)
        args, info = (K.abi_args_grid if K.is_grid(cls) else K.abi_args_graph)(I)
        fn, _ = prog.method(cls, "Init")
        I.call(fn, o, args, fn, Frame("top"))
        K.check_inv(I, o, "%s/%s::Init" % (prop, cls))
        if not K.is_grid(cls):
            for k, f in enumerate(K.rows_match_counts(I, o)):
                api.ctx.oblige("%s/%s::Init/ragged-tables.%d" % (prop, cls, k), f)

    return Case(cid, run, functions=["%s::Init (+ BuildMeshNeighbors/SetNeighbors, Build_mesh_kr, Build_mesh_kd, "
                                     "AlgorithmSpecificInit, SamplingStep)" % cls], conc=False, max_paths=4000)


def transposition_case(kind, prop="C11"):
    cid = "SpeciesFirstToMeshFirstArray<%s>" % kind

    def run(api):
        prog = program()
        I = K.make_interp(prog, api.ctx, prop, loop_inv=K.LOOP_INV)
        S = K._int(I, "n_species", 0)
        M = K._int(I, "n_meshes", 0)
        v = I.fresh_vec("arr", "real" if kind == "double" else "int", S * M)
        fns = prog.functions["SpeciesFirstToMeshFirstArray"]
        fn = [f for f in fns if kind in f["type"]["qualType"]][0]
        out = I.call(fn, None, [v, S, M], fn, Frame("top"))
        api.ctx.oblige("%s/SpeciesFirstToMeshFirstArray/result-length" % prop, out.n == S * M)

    return Case(cid, run, functions=["SpeciesFirstToMeshFirstArray"], conc=False)


def mkvec_case(prop="C11"):
    cid = "MkVec"

    def run(api):
        prog = program()
        I = K.make_interp(prog, api.ctx, prop, loop_inv=K.LOOP_INV)
        for fn in prog.functions["MkVec"]:
            n = K._int(I, "len", 0)
            kind = "int" if "int *" in fn["type"]["qualType"] else "real"
            buf = Ptr(kind, n, I.fresh_arr("buf", kind), "a")
            out = I.call(fn, None, [buf, n], fn, Frame("top"))
            api.ctx.oblige("%s/MkVec/result-length" % prop, out.n == n)

    return Case(cid, run, functions=["MkVec<double,double>", "MkVec<int,int>", "MkVec<double,int>"], conc=False)


def gsd_case(prop="C11"):
    cid = "GenerateStochasticDistribution"

    def run(api):
        prog = program()
        I = K.make_interp(prog, api.ctx, prop, loop_inv=K.LOOP_INV)
        S = K._int(I, "n_species", 0)
        M = K._int(I, "n_meshes", 0)
        v = I.fresh_vec("mesh_x", "real", M * S)
        I.param_facts = {"mesh_x": lambda e: e >= 0}
        seed = K._int(I, "seed")
        fn = prog.functions["GenerateStochasticDistribution"][0]
        out = I.call(fn, None, [v, M, S, seed], fn, Frame("top"))
        api.ctx.oblige("%s/GenerateStochasticDistribution/result-length" % prop, out.n == M * S)

    return Case(cid, run, functions=["GenerateStochasticDistribution"], conc=False, max_paths=4000)


# ---------------------------------------------------------------------------
# concrete replay battery (real engine, sanitizers): bounded stand-in + replay of symbolic failures
def battery_step(tier, seed):
    from vc.cppsym.replay import Battery, SCENARIOS, ENGINES, SPACES
    b = Battery()
    out = {"name": "sanitizer-battery", "violations": [], "undecided": [], "runs": 0,
           "bounded": "7 scenarios x 3 engines x 2 space types (x 4 sampling policies x 4 init modes in the thorough tier) "
                      "under ASan+UBSan+_GLIBCXX_ASSERTIONS"}
    try:
        if not b.build():
            out["crash"] = "driver does not build: " + b.build_log[-800:]
            return out
        policies = ["on_t_sample"] if tier == "quick" else ["on_t_sample", "on_iteration", "on_interval", "no_sampling"]
        modes = ["auto"] if tier == "quick" else ["auto", "none", "Poisson", "redist"]
        seen = set()
        for sc in SCENARIOS:
            for e in ENGINES:
                for sp in SPACES:
                    for pol in policies:
                        for mode in modes:
                            for sd in ([1 + seed] if tier == "quick" else [1 + seed, 2 + seed, 3 + seed]):
                                r = b.run(sc, e, sp, pol, mode, sd)
                                out["runs"] += 1
                                if r["status"] in ("crash", "hang"):
                                    first = r["detail"].strip().split("\n")
                                    sig = _signature(r)
                                    key = (sig, r["status"])
                                    if key in seen:
                                        continue
                                    seen.add(key)
                                    out["violations"].append({"obligation": "C11/sanitizer/%s" % sig,
                                                              "inputs": {"scenario": r["cmd"]}, "status": r["status"],
                                                              "detail": r["detail"][-600:]})
    finally:
        b.close()
    return out


def _signature(r):
    d = r["detail"]
    if r["status"] == "hang":
        return "hang"
    if "_M_mean > 0.0" in d:
        return "poisson_distribution-mean-positive"
    if "__n < this->size()" in d:
        return "vector-subscript-out-of-range"
    if "double-free" in d or "attempting double-free" in d:
        return "double-free"
    if "heap-use-after-free" in d:
        return "use-after-free"
    if "heap-buffer-overflow" in d:
        return "heap-buffer-overflow"
    if "runtime error" in d:
        return "undefined-behaviour"
    return "crash"


def link_replay(oid, extra):
    """a failing symbolic obligation is replayed by the battery scenario that trips the same check"""
    want = None
    if "SampleOnTSample" in oid and "index-in-bounds" in oid:
        want = "vector-subscript-out-of-range"
    elif "poisson_distribution-mean-positive" in oid:
        want = "poisson_distribution-mean-positive"
    elif "double-free" in oid or "delete-of" in oid or "typestate-invariant" in oid:
        want = "undefined-behaviour"
    if want is None:
        return None
    for e in extra:
        for v in e.get("violations", []):
            if v["obligation"].endswith(want):
                return {"inputs": v["inputs"], "failed": [oid], "how": "sanitizer-battery", "detail": v["detail"][-400:]}
    return None


CASES = []
for _c in K.ALL:
    CASES.append(method_case(_c, "Iterate"))
    CASES.append(method_case(_c, "Sample"))
    CASES.append(init_case(_c))
CASES.append(transposition_case("double"))
CASES.append(transposition_case("int"))
CASES.append(mkvec_case())
CASES.append(gsd_case())
EXTRA = [battery_step]


# ---------------------------------------------------------------------------
# exported C API: typestate of the globals
#   G  ==  global_algo_freed  or  (the pointer selected by global_space_type points to a live, initialised object)
API_LIVE = ["engineexport_iterate", "engineexport_iterate_n", "engineexport_run", "engineexport_get_progress",
            "engineexport_get_nsamples", "engineexport_get_time", "engineexport_sample", "engineexport_get_tsample",
            "engineexport_get_trajectory", "engineexport_get_state"]


def setup_globals(I, cls, freed, without_grid_shape=False):
    """global state: an algorithm object of class cls was set up; `freed` tells whether it was released"""
    o = K.valid_object(I, cls, without_grid_shape=without_grid_shape)
    K.assume_content_invariants(I, o)
    grid = K.is_grid(cls)
    if freed:
        o.alive = z3.BoolVal(False)
    I.globals["global_space_type"] = z3.IntVal(0 if grid else 1)
    I.globals["global_grid_algo"] = ObjPtr(o if grid else None, "SimulationAlgorithm3DBase")
    I.globals["global_graph_algo"] = ObjPtr(None if grid else o, "SimulationAlgorithmGraphBase")
    I.globals["global_algo_freed"] = z3.BoolVal(bool(freed))
    I.default_obj = o
    return o


def check_typestate(I, o, P):
    freed = I.globals["global_algo_freed"]
    I.c.oblige(P + "/typestate-invariant(freed-or-live)", z3.Or(freed, o.alive))


def api_case(fname, cls, prop="C11"):
    cid = "api/%s/%s" % (fname.replace("engineexport_", ""), cls)

    def run(api):
        prog = program()
        I = K.make_interp(prog, api.ctx, prop, loop_inv=K.LOOP_INV)
        o = setup_globals(I, cls, freed=False)
        f = o.fields
        M, S = f["n_meshes"], f["n_species"]
        fn = prog.functions[fname][0]
        args = []
        if fname == "engineexport_iterate_n":
            args = [K._int(I, "n_iterations")]
        elif fname == "engineexport_run":
            args = [K._int(I, "breathe_dt")]
        elif fname == "engineexport_get_tsample":
            args = [Ptr("real", f["sampled_t"].n, I.fresh_arr("buf", "real"), "t_sample")]
        elif fname == "engineexport_get_trajectory":
            args = [Ptr("real", f["sampled_t"].n * S * M, I.fresh_arr("buf", "real"), "trajectory_data")]
        elif fname == "engineexport_get_state":
            args = [Ptr("real", S * M, I.fresh_arr("buf", "real"), "state_data")]
        I.call(fn, None, args, fn, Frame("top"))
        K.check_inv(I, o, "%s/%s[%s]" % (prop, fname, cls))
        check_typestate(I, o, "%s/%s[%s]" % (prop, fname, cls))

    return Case(cid, run, functions=[fname], conc=False, max_paths=4000)


def finalize_case(cls, freed, prop="C11"):
    cid = "api/finalize/%s/%s" % (cls, "already-released" if freed else "live")

    def run(api):
        prog = program()
        I = K.make_interp(prog, api.ctx, prop, loop_inv=K.LOOP_INV)
        o = setup_globals(I, cls, freed=freed)
        fn = prog.functions["engineexport_finalize"][0]
        I.call(fn, None, [], fn, Frame("top"))
        P = "%s/engineexport_finalize[%s]" % (prop, cls)
        I.c.oblige(P + "/object-released", z3.Not(o.alive))
        check_typestate(I, o, P)

    return Case(cid, run, functions=["engineexport_finalize"], conc=False)


for _c in ("Euler3D", "GillespieGraph"):
    for _f in API_LIVE:
        CASES.append(api_case(_f, _c))
for _c in ("Euler3D", "TauLeapGraph"):
    CASES.append(finalize_case(_c, False))
    CASES.append(finalize_case(_c, True))
# thorough tier: the exported API over the four remaining classes as well
for _c in ("EulerGraph", "TauLeap3D", "TauLeapGraph", "Gillespie3D"):
    for _f in API_LIVE:
        _k = api_case(_f, _c)
        _k.thorough_only = True
        CASES.append(_k)
for _c in ("EulerGraph", "TauLeap3D", "Gillespie3D", "GillespieGraph"):
    for _fr in (False, True):
        _k = finalize_case(_c, _fr)
        _k.thorough_only = True
        CASES.append(_k)


# The ABI precondition of the native entry points (buffer lengths, index ranges) is established by the Python seam:
# the seam cases of C04 (lengths of every marshalled array, length of the trajectory / time buffers handed to
# engineexport_get_trajectory / get_tsample against the engine's sample count) are part of this check as well.
from props import C04 as _C04
for _sp in ("grid", "graph"):
    CASES.append(_C04.marshal_case(_sp, False))
CASES.append(_C04.unmarshal_case(False))
CASES.append(_C04.unmarshal_case(True))
