"""C15  Grid geometry is consistent everywhere, and a grid equals its graph.

Under contract (rdgridspace.py): RDGridSpace.get_cell_coordinates / get_cell_index /
is_within_bounds / are_neighbors / get_neighbors / set_boundary_conditions / size;
(coarsegrain.py) grid_to_graph; (rdgraphspace.py) RDGraphSpace.get_edge / get_neighbors.
Grid sizes w,h,d >= 1, the 8 boundary combinations, cells and positions are symbolic.

  bijection   get_cell_index(get_cell_coordinates(i)) = i ; coordinates(index(x,y,z)) = (x,y,z)
  bounds      is_within_bounds(p) <=> p inside, for the three position forms; accessors raise otherwise
  neighbours  are_neighbors(c,c') <=> nb(c,c') (one step along one axis, wrapping iff that axis is
              periodic); symmetric; get_neighbors(c) = {c' : nb(c,c')} (plus c itself on a periodic
              axis of length 1)
  graph       grid_to_graph: volumes, environments, adjacency, surface = face, distance = edge
              (bounded stand-in: exhaustive over shapes <= 3x3x2 x 8 boundary combinations)
"""
from vc.core.runner import Case
from vc.core.api import KINDS
from spec import quant as Q
from spec import model as M
from spec import gridlemmas as GL

META = {
    "level": "proof",
    "trusted_base": ["vc/pysym", "z3 / cvc5", "quotient/remainder encoding of python // and % (ghost functions pydiv/pymod)"],
    "assumptions": ["A1 (int(a/b) on non-negative ints is the quotient)",
                    "L9 index bound and L9b quotient uniqueness are assumed as lemma instances where stated"],
}


def coords(api, pfx, g, inside=True):
    dr = (0, 1) if inside else (-1, 3)
    x = api.int(pfx + "x", -10**6, 10**6, draw=dr)
    y = api.int(pfx + "y", -10**6, 10**6, draw=dr)
    z = api.int(pfx + "z", -10**6, 10**6, draw=(0, 0) if inside else (-1, 2))
    ins = api.and_(api.le(0, x), api.lt(x, g.w), api.le(0, y), api.lt(y, g.h), api.le(0, z), api.lt(z, g.d))
    if inside:
        api.assume(ins)
    return x, y, z, ins


class Pos:
    pass


def as_form(form, x, y, z):
    if form == "tuple":
        return (x, y, z)
    if form == "list":
        return [x, y, z]
    p = Pos()
    p.x, p.y, p.z = x, y, z
    return p


def lin(g, x, y, z):
    return x + y * g.w + z * g.w * g.h


def bijection_case():
    cid = "bijection"
    P = "C15/" + cid

    def run(api):
        g = M.mk_grid(api, E=1, env_form="scalar")
        # coordinates -> index -> coordinates
        x, y, z, _ = coords(api, "c", g)
        i = GL.coords_to_index(api, g, x, y, z)
        out = api.call(lambda: g.obj.get_cell_index((x, y, z)))
        api.check(P + "/index_ok", out.ok, "raised %r" % (out.exc,))
        if out.ok:
            api.check(P + "/index_formula", api.eq(out.value, i))
        c = api.call(lambda: g.obj.get_cell_coordinates(i))
        api.check(P + "/coordinates_ok", c.ok, "raised %r" % (c.exc,))
        if c.ok:
            # L9b: the decomposition i = x + w*(y + h*z) with 0<=x<w, 0<=y<h is unique
            cx, cy, cz = c.value
            api.check(P + "/coordinates_of_index.x", api.eq(cx, x))
            api.check(P + "/coordinates_of_index.y", api.eq(cy, y))
            api.check(P + "/coordinates_of_index.z", api.eq(cz, z))
            obj = api.call(lambda: g.obj.get_cell_coordinates(i, return_type=Pos))
            api.check(P + "/coordinates_as_object", obj.ok and api.truth(api.and_(
                api.eq(obj.value.x, cx), api.eq(obj.value.y, cy), api.eq(obj.value.z, cz))) if obj.ok else False)

    return Case(cid, run, functions=["RDGridSpace.get_cell_index", "RDGridSpace.get_cell_coordinates",
                                     "RDGridSpace.is_within_bounds"])


def index_roundtrip_case():
    cid = "bijection/index-to-coordinates-to-index"
    P = "C15/" + cid

    def run(api):
        g = M.mk_grid(api, E=1, env_form="scalar")
        i = api.index("i", g.n)
        sx, sy, sz = GL.index_to_coords(api, g, i)
        c = api.call(lambda: g.obj.get_cell_coordinates(i))
        api.check(P + "/coordinates_ok", c.ok, "raised %r" % (c.exc,))
        if not c.ok:
            return
        cx, cy, cz = c.value
        api.check(P + "/coordinates_are_quotients", api.and_(api.eq(cx, sx), api.eq(cy, sy), api.eq(cz, sz)))
        api.check(P + "/in_range", api.and_(api.le(0, cx), api.lt(cx, g.w), api.le(0, cy), api.lt(cy, g.h),
                                            api.le(0, cz), api.lt(cz, g.d)))
        api.check(P + "/recomposes", api.eq(lin(g, cx, cy, cz), i))
        back = api.call(lambda: g.obj.get_cell_index((cx, cy, cz)))
        api.check(P + "/index_ok", back.ok, "raised %r" % (back.exc,))
        if back.ok:
            api.check(P + "/roundtrip", api.eq(back.value, i))

    return Case(cid, run, functions=["RDGridSpace.get_cell_index", "RDGridSpace.get_cell_coordinates"])


def bounds_case(form):
    cid = "bounds/" + form
    P = "C15/" + cid

    def run(api):
        g = M.mk_grid(api, E=1, env_form="scalar")
        if form == "index":
            p = api.int("p", -10**7, 10**7, draw=(-3, 12))
            ins = api.and_(api.le(0, p), api.lt(p, g.n))
            pos = p
        else:
            x, y, z, ins = coords(api, "c", g, inside=False)
            pos = as_form(form, x, y, z)
        out = api.call(lambda: g.obj.is_within_bounds(pos))
        api.check(P + "/no_raise", out.ok)
        if out.ok:
            api.check(P + "/is_within_bounds_iff_inside", api.iff(out.value, ins))
        gi = api.call(lambda: g.obj.get_cell_index(pos))
        if gi.ok:
            api.check(P + "/get_cell_index_accepts_only_inside", ins)
        else:
            api.check(P + "/get_cell_index_rejects_only_outside", api.not_(ins))
        if form == "index":
            gc = api.call(lambda: g.obj.get_cell_coordinates(pos))
            if gc.ok:
                api.check(P + "/get_cell_coordinates_accepts_only_inside", ins)
            else:
                api.check(P + "/get_cell_coordinates_rejects_only_outside", api.not_(ins))
        ge = api.call(lambda: g.obj.get_cell_env(pos))
        if ge.ok:
            api.check(P + "/get_cell_env_accepts_only_inside", ins)
        else:
            api.check(P + "/get_cell_env_rejects_only_outside", api.not_(ins))

    return Case(cid, run, functions=["RDGridSpace.is_within_bounds", "RDGridSpace.get_cell_index",
                                     "RDGridSpace.get_cell_coordinates", "RDGridSpace.get_cell_env"])


def axis_dist(api, a, b, size, periodic):
    d = api.ite(api.le(a, b), b - a, a - b)
    wrap = size - d
    return api.ite(api.and_(periodic, api.lt(wrap, d)), wrap, d)


def nb(api, g, c1, c2):
    """spec neighbour relation between cells given by coordinates"""
    per = {ax: api.eq(g.bc[ax], "periodical") for ax in ("x", "y", "z")}
    dx = axis_dist(api, c1[0], c2[0], g.w, per["x"])
    dy = axis_dist(api, c1[1], c2[1], g.h, per["y"])
    dz = axis_dist(api, c1[2], c2[2], g.d, per["z"])
    return api.eq(dx + dy + dz, 1)


def neighbors_case(form):
    cid = "neighbours/are_neighbors/" + form
    P = "C15/neighbours"

    def run(api):
        g = M.mk_grid(api, E=1, env_form="scalar")
        x1, y1, z1, _ = coords(api, "a", g)
        x2, y2, z2, _ = coords(api, "b", g)
        i1 = GL.coords_to_index(api, g, x1, y1, z1)
        i2 = GL.coords_to_index(api, g, x2, y2, z2)
        if form == "index":
            p1, p2 = i1, i2
        else:
            p1, p2 = as_form(form, x1, y1, z1), as_form(form, x2, y2, z2)
        out = api.call(lambda: g.obj.are_neighbors(p1, p2))
        api.check(P + "/are_neighbors_ok", out.ok, "raised %r" % (out.exc,))
        if not out.ok:
            return
        api.check(P + "/are_neighbors_iff_nb", api.iff(out.value, nb(api, g, (x1, y1, z1), (x2, y2, z2))))
        rev = api.call(lambda: g.obj.are_neighbors(p2, p1))
        api.check(P + "/symmetric", rev.ok and api.truth(api.iff(rev.value, out.value)) if rev.ok else False)

    return Case(cid, run, functions=["RDGridSpace.are_neighbors", "RDGridSpace.get_cell_coordinates",
                                     "RDGridSpace.get_cell_index", "RDGridSpace.set_boundary_conditions"])


def decomposition_facts(api, g, i, x, y, z):
    """ground instances of quotient/remainder uniqueness for the decomposition the code performs:
    i % w = x, (i % (w*h)) = x + y*w, int((i % (w*h))/w) = y, int(i/(w*h)) = z"""
    if api.mode == "conc":
        return (i % g.w == x) and ((i % (g.w * g.h)) // g.w == y) and (i // (g.w * g.h) == z)
    import z3
    from vc.core.proxies import PYMOD, TRUNC, zint, SBool
    iz, w, h = zint(i), zint(g.w), zint(g.h)
    wh = w * h
    f = z3.And(PYMOD(iz, w) == zint(x), PYMOD(iz, wh) == zint(x) + zint(y) * w,
               TRUNC(z3.ToReal(PYMOD(iz, wh)) / z3.ToReal(w)) == zint(y),
               TRUNC(z3.ToReal(iz) / z3.ToReal(wh)) == zint(z))
    return SBool(f)


def get_neighbors_case(bc):
    cid = "neighbours/get_neighbors/" + "".join(v[0] for v in bc)
    P = "C15/neighbours"

    def run(api):
        g = M.mk_grid(api, E=1, env_form="scalar", bc=dict(zip("xyz", bc)))
        x, y, z, _ = coords(api, "a", g)
        i = GL.coords_to_index(api, g, x, y, z)
        out = api.call(lambda: g.obj.get_neighbors((x, y, z)))
        api.check(P + "/get_neighbors_ok", out.ok, "raised %r" % (out.exc,))
        if not out.ok:
            return
        res = list(out.value)
        # soundness: every returned cell is a neighbour (or the cell itself on a periodic axis of length 1)
        cand = candidates(api, g, x, y, z)
        for k, r in enumerate(res):
            api.check(P + "/returned_cells_are_neighbours",
                      api.or_(*[api.and_(c_ok, api.eq(r, lin(g, *c))) for (c, c_ok) in cand]))
        # completeness: any neighbour c' is in the list
        x2, y2, z2, _ = coords(api, "b", g)
        i2 = lin(g, x2, y2, z2)
        isnb = nb(api, g, (x, y, z), (x2, y2, z2))
        api.check(P + "/every_neighbour_returned",
                  api.implies(isnb, api.or_(*[api.eq(r, i2) for r in res]) if res else False))

    return Case(cid, run, functions=["RDGridSpace.get_neighbors", "RDGridSpace.get_cell_index",
                                     "RDGridSpace.get_cell_coordinates"], max_paths=20000)


def candidates(api, g, x, y, z):
    """the six candidate cells with the condition under which each exists (spec)"""
    out = []
    per = {ax: api.eq(g.bc[ax], "periodical") for ax in ("x", "y", "z")}
    for ax, (dx, dy, dz) in (("x", (1, 0, 0)), ("x", (-1, 0, 0)), ("y", (0, 1, 0)), ("y", (0, -1, 0)),
                             ("z", (0, 0, 1)), ("z", (0, 0, -1))):
        size = {"x": g.w, "y": g.h, "z": g.d}[ax]
        c = [x + dx, y + dy, z + dz]
        k = "xyz".index(ax)
        v = c[k]
        inside = api.and_(api.le(0, v), api.lt(v, size))
        wrapped = api.ite(api.lt(v, 0), v + size, api.ite(api.le(size, v), v - size, v))
        c_wr = list(c)
        c_wr[k] = wrapped
        out.append((tuple(c), inside))
        out.append((tuple(c_wr), api.and_(per[ax], api.not_(inside))))
    return out


# ---------------------------------------------------------------------------
# grid -> graph: bounded stand-in, exhaustive over small shapes (concrete, untouched code)
def grid_to_graph_case(api):
    import itertools
    CG = api.mod("coarsegrain")
    G = api.mod("rdgridspace")
    U = api.mod("units")
    P = "C15/grid_to_graph"
    tier = api.inputs.get("__tier", "quick")
    dims = [(w, h, d) for w in (1, 2, 3) for h in (1, 2, 3) for d in (1, 2)]
    if tier == "thorough":
        dims = [(w, h, d) for w in (1, 2, 3, 4) for h in (1, 2, 3, 4) for d in (1, 2, 3)]
    for (w, h, d) in dims:
        for bcx, bcy, bcz in itertools.product(("reflecting", "periodical"), repeat=3):
            n = w * h * d
            env = [(3 * i + 1) % 2 for i in range(n)]
            grid = G.RDGridSpace(w=w, h=h, d=d, cell_env=env, cell_vol="8 µm3",
                                 boundary_conditions={"x": bcx, "y": bcy, "z": bcz})
            graph = CG.grid_to_graph(grid)
            tag = "%dx%dx%d/%s%s%s" % (w, h, d, bcx[0], bcy[0], bcz[0])
            api.check(P + "/nodes", graph.size() == n and all(
                graph.nodes[i].environment == env[i] and abs(graph.nodes[i].volume.convert("µm3").value - 8) < 1e-9
                for i in range(n)), tag)
            # expected multiset of unordered pairs
            exp = {}
            per = {"x": bcx == "periodical", "y": bcy == "periodical", "z": bcz == "periodical"}
            size = {"x": w, "y": h, "z": d}
            for z in range(d):
                for y in range(h):
                    for x in range(w):
                        c = {"x": x, "y": y, "z": z}
                        for ax in "xyz":
                            c2 = dict(c)
                            if c[ax] + 1 < size[ax]:
                                c2[ax] = c[ax] + 1
                            elif per[ax]:
                                c2[ax] = 0
                            else:
                                continue
                            a = c["x"] + c["y"] * w + c["z"] * w * h
                            b = c2["x"] + c2["y"] * w + c2["z"] * w * h
                            key = (min(a, b), max(a, b))
                            exp[key] = exp.get(key, 0) + 1
            got = {}
            geom_ok = True
            for e in graph.edges:
                key = (min(e.i, e.j), max(e.i, e.j))
                got[key] = got.get(key, 0) + 1
                if abs(e.surface.convert("µm2").value - 4) > 1e-9 or abs(e.distance.convert("µm").value - 2) > 1e-9:
                    geom_ok = False
            api.check(P + "/adjacency", got == exp, tag)
            api.check(P + "/edge_geometry", geom_ok, tag)
            # adjacency agrees with the grid's own neighbour test for distinct cells
            agree = True
            for a in range(n):
                for b in range(n):
                    if a != b and grid.are_neighbors(a, b) != ((min(a, b), max(a, b)) in got):
                        agree = False
            api.check(P + "/adjacency_equals_are_neighbors", agree, tag)


CASES = [bijection_case(), index_roundtrip_case()]
for _f in ("index", "tuple", "list", "object"):
    CASES.append(bounds_case(_f))
for _f in ("tuple", "object", "index"):
    CASES.append(neighbors_case(_f))
import itertools as _it
for _bc in _it.product(("reflecting", "periodical"), repeat=3):
    CASES.append(get_neighbors_case(_bc))
CASES.append(Case("grid_to_graph/bounded", grid_to_graph_case, functions=["grid_to_graph"], sym=False,
                  bounded="all shapes w,h<=3, d<=2 (thorough: <=4,<=4,<=3) x 8 boundary combinations, exhaustive"))


# the native engine receives the geometry through the Python seam (sizes, the three boundary conditions in x, y, z order,
# edges of a graph): C04's marshalling cases are part of this check
from props import C04 as _C04
CASES.append(_C04.marshal_case("grid", False))
CASES.append(_C04.marshal_case("graph", False))

try:
    import z3 as _z3
except ImportError:
    _z3 = None
if _z3 is not None:
    # the native engine's neighbour table: GetNeighborIndex / BuildMeshNeighbors contracts (C02's pairing cases)
    from props import C02 as _C02
    CASES.append(_C02.build_neighbors_case())
    for _n in range(6):
        CASES.append(_C02.pairing_grid_case(_n))


def LATE_CASES():
    """the three boundary settings reach the native engine in x, y, z order: the grid entry point of the C API (C14's dispatch
    case), once per axis being the periodic one, so that an axis read from another axis's argument is seen"""
    if _z3 is None:
        return []
    from props import C14 as _C14
    return [_C14.dispatch_case("grid", "none", "euler", _bc) for _bc in
            (("periodical", "reflecting", "reflecting"), ("reflecting", "periodical", "reflecting"),
             ("reflecting", "reflecting", "periodical"))]
