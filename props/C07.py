"""C07  Stochastic engines take only legal steps, at the rates of the master equation.

On the real C++ (engine sources of the working tree through vc/cppsym), for Gillespie3D and GillespieGraph:
  ApplyReaction     changes exactly the non-chemostated entries of the chosen cell, each by the stoichiometric coefficient of
                    the chosen reaction; every other entry is unchanged (Skolem pointwise invariant = every entry)
  ApplyDiffusion    takes one molecule from (cell, species) and gives one to (neighbour, species); chemostated entries exempt;
                    every other entry unchanged
  DrawAndApplyEvent applies at most one event; the event applied has a strictly positive propensity and is the one whose
                    interval [partial sum before, partial sum after) contains the drawn number
  ReactionProp      = mesh_kr[cell, reaction] x prod_species x (x-1) ... (x-sub+1), 0 when a reactant is short
                    (ghost falling factorial / partial product, polynomial identities)
  DiffusionProp     = x[cell, species] x outgoing diffusion constant; neither propensity reads the chemostat map
  ComputePropensities stores ReactionProp / DiffusionProp of the current state at every channel (0 towards a missing neighbour)
  Iterate           one event, then t' = t + log(1/u)/a0 with a0 the total computed from the state before the event;
                    non-negative integer state is kept (C11's chain with the integrality obligations switched on)
and for TauLeap3D / TauLeapGraph:
  Compute_nevt      every channel count is a Poisson draw whose mean is propensity x dt (0 when the mean is not positive,
                    0 towards a missing neighbour)
"""
from vc.core.runner import Case
try:
    import z3
    from vc.cppsym import contracts as K
    from vc.cppsym.interp import Frame, Vec, Vec2, Ptr, Obj
except ImportError:
    z3 = None
    from vc.cppsym import names as K
from props import C11

META = {
    "level": "proof",
    "trusted_base": ["clang AST + vc/cppsym", "z3 / cvc5 / ratfun"],
    "assumptions": ["A1 double = real, int = mathematical integer", "A2 uniform draws in (0,1); poisson_distribution(mean) is Poisson "
                    "with that mean (library)",
                    "the statistical statement follows from interval membership: the intervals are consecutive partial sums of the "
                    "propensities, so an event is selected with probability a/a0 (argument on paper, not machine-checked)",
                    "that an event is always applied when a0 > 0 is proved over the reals for both Gillespie classes (a0 and the "
                    "per-cell sums are the sums of the channels: ghost partial sums through ComputePropensities and "
                    "DrawAndApplyEvent); with doubles the last interval can be missed by rounding (A1)"],
}

GILL = ["Gillespie3D", "GillespieGraph"]
TAU = ["TauLeap3D", "TauLeapGraph"]


def _obj(I, cls):
    o = K.valid_object(I, cls)
    K.assume_content_invariants(I, o)
    return o


def apply_reaction_case(cls, prop="C07"):
    P = "%s/%s::ApplyReaction" % (prop, cls)

    def run(api):
        prog = C11.program()
        c = api.ctx
        inv0 = dict(K.LOOP_INV)
        I = K.make_interp(prog, c, prop, loop_inv=inv0)
        I.check_integrality = True
        o = _obj(I, cls)
        f = o.fields
        S, R, M = f["n_species"], f["n_reactions"], f["n_meshes"]
        mi, ri, e0 = K._int(I, "mesh_index", 0), K._int(I, "reaction_index", 0), K._int(I, "e0", 0)
        c.assume(z3.And(mi < M, ri < R, e0 < M * S))
        # caller's guarantee (DrawAndApplyEvent case): the chosen reaction has a positive propensity
        c.assume(z3.Select(f["mesh_ar"].arr, mi * R + ri) > 0)
        pre = f["mesh_x"].arr
        ch = f["mesh_chstt"].arr
        base = mi * S

        def expected(s_reached):
            inside = z3.And(e0 >= base, e0 < base + s_reached, z3.Select(ch, e0) == 0)
            return z3.If(inside, z3.Select(pre, e0) + I.to_real(z3.Select(f["sto"].arr, (e0 - base) * R + ri)), z3.Select(pre, e0))

        def inv(I_, fr, stage):
            out = K.inv_apply_reaction(I_, fr, stage)
            s = I_.local_by_name(fr, "s")
            return out + [z3.Select(fr.this.fields["mesh_x"].arr, e0) == expected(s), fr.this.fields["mesh_x"].n == M * S]
        inv0[("ApplyReaction", 1)] = inv
        fn, _ = prog.method(cls, "ApplyReaction")
        I.call(fn, o, [mi, ri], fn, Frame("top"))
        c.oblige(P + "/every-entry: +sto[species,reaction] in the chosen cell unless chemostated, unchanged elsewhere",
                 z3.Select(o.fields["mesh_x"].arr, e0) == expected(S))
        c.oblige(P + "/length-kept", o.fields["mesh_x"].n == M * S)
        for nm in ("mesh_chstt", "sto", "sub", "mesh_kr"):
            c.oblige(P + "/frame/%s" % nm, o.fields[nm].arr == f[nm].arr)

    return Case("%s/ApplyReaction" % cls, run, functions=["%s::ApplyReaction" % cls], conc=False)


def _neighbour(o, cls, mi, n):
    f = o.fields
    if K.is_grid(cls):
        return z3.Select(f["mesh_neighbors"].arr, mi * 6 + n)
    return z3.Select(z3.Select(f["mesh_neighbor_index"].arr, mi), n)


def apply_diffusion_case(cls, prop="C07"):
    P = "%s/%s::ApplyDiffusion" % (prop, cls)

    def run(api):
        prog = C11.program()
        c = api.ctx
        I = K.make_interp(prog, c, prop, loop_inv=dict(K.LOOP_INV))
        I.check_integrality = True
        o = _obj(I, cls)
        f = dict(o.fields)
        S, M = f["n_species"], f["n_meshes"]
        mi, si, n, e0 = K._int(I, "mesh_index", 0), K._int(I, "species_index", 0), K._int(I, "direction", 0), K._int(I, "e0", 0)
        c.assume(z3.And(mi < M, si < S, e0 < M * S))
        if K.is_grid(cls):
            c.assume(z3.And(n < 6, z3.Select(f["mesh_neighbors"].arr, mi * 6 + n) != -1))
        else:
            c.assume(n < z3.Select(f["mesh_neighbor_n"].arr, mi))
            if not K.is_grid(cls):
                for fct in K.rows_match_counts(I, o):
                    c.assume(fct)
        # caller's guarantee: the chosen channel has a positive propensity, hence a molecule to move
        c.assume(z3.Select(f["mesh_x"].arr, mi * S + si) > 0)
        pre, ch = f["mesh_x"].arr, f["mesh_chstt"].arr
        j = _neighbour(o, cls, mi, n)
        a, b = mi * S + si, j * S + si
        fn, _ = prog.method(cls, "ApplyDiffusion")
        I.call(fn, o, [mi, si, n], fn, Frame("top"))
        minus = z3.If(z3.And(e0 == a, z3.Select(ch, a) == 0), 1, 0)
        plus = z3.If(z3.And(e0 == b, z3.Select(ch, b) == 0), 1, 0)
        c.oblige(P + "/every-entry: -1 at (cell, species), +1 at (neighbour, species), chemostats exempt, unchanged elsewhere",
                 z3.Select(o.fields["mesh_x"].arr, e0) == z3.Select(pre, e0) - minus + plus)
        c.oblige(P + "/length-kept", o.fields["mesh_x"].n == M * S)
        c.oblige(P + "/frame/mesh_chstt", o.fields["mesh_chstt"].arr == f["mesh_chstt"].arr)

    return Case("%s/ApplyDiffusion" % cls, run, functions=["%s::ApplyDiffusion" % cls], conc=False)


def draw_case(cls):
    P = "C07/%s::DrawAndApplyEvent" % cls

    def run(api):
        prog = C11.program()
        c = api.ctx
        I = K.make_interp(prog, c, "C07", loop_inv=dict(K.LOOP_INV))
        o = _obj(I, cls)
        f = o.fields
        S, R, M = f["n_species"], f["n_reactions"], f["n_meshes"]
        if not K.is_grid(cls):
            for fct in K.rows_match_counts(I, o):
                c.assume(fct)
        calls = []

        def in_interval(fr, a):
            r2, cum = I.local_by_name(fr, "r2"), I.local_by_name(fr, "a_cumul")
            # a_cumul has already been advanced by the propensity of the chosen channel
            return z3.And(r2 >= cum - a, r2 < cum, a > 0)

        def stub_reaction(I_, this, args, fr, node):
            i, j = args
            calls.append("reaction")
            c.oblige(P + "/at-most-one-event", z3.BoolVal(len(calls) == 1))
            c.oblige(P + "/reaction/indices-in-range", z3.And(i >= 0, i < M, j >= 0, j < R))
            a = z3.Select(f["mesh_ar"].arr, i * R + j)
            c.oblige(P + "/reaction/positive-propensity-and-drawn-number-in-its-interval", in_interval(fr, a))

        def stub_diffusion(I_, this, args, fr, node):
            i, j, n = args
            calls.append("diffusion")
            c.oblige(P + "/at-most-one-event", z3.BoolVal(len(calls) == 1))
            if K.is_grid(cls):
                a = z3.Select(f["mesh_ad"].arr, i * S * 6 + j * 6 + n)
                ok = z3.And(i >= 0, i < M, j >= 0, j < S, n >= 0, n < 6, z3.Select(f["mesh_neighbors"].arr, i * 6 + n) != -1)
            else:
                cnt = z3.Select(f["mesh_neighbor_n"].arr, i)
                a = z3.Select(z3.Select(f["mesh_ad"].arr, i), j * cnt + n)
                ok = z3.And(i >= 0, i < M, j >= 0, j < S, n >= 0, n < cnt)
            c.oblige(P + "/diffusion/indices-in-range-and-neighbour-exists", ok)
            c.oblige(P + "/diffusion/positive-propensity-and-drawn-number-in-its-interval", in_interval(fr, a))
            c.oblige(P + "/diffusion/a-molecule-to-move", z3.Select(f["mesh_x"].arr, i * S + j) > 0)
        I.method_stubs = {"ApplyReaction": stub_reaction, "ApplyDiffusion": stub_diffusion}
        fn, _ = prog.method(cls, "DrawAndApplyEvent")
        I.call(fn, o, [], fn, Frame("top"))
        api.check(P + "/completed", True)

    return Case("%s/DrawAndApplyEvent" % cls, run, functions=["%s::DrawAndApplyEvent" % cls], conc=False, max_paths=3000)


def reaction_prop_case(cls, prop="C07"):
    P = "%s/%s::ReactionProp" % (prop, cls)

    def run(api):
        prog = C11.program()
        c = api.ctx
        inv0 = dict(K.LOOP_INV)
        I = K.make_interp(prog, c, prop, loop_inv=inv0)
        o = _obj(I, cls)
        f = o.fields
        S, R, M = f["n_species"], f["n_reactions"], f["n_meshes"]
        mi, ri = K._int(I, "mesh_index", 0), K._int(I, "reaction_index", 0)
        c.assume(z3.And(mi < M, ri < R))
        FF = z3.Function("falling", z3.RealSort(), z3.RealSort(), z3.RealSort())    # x (x-1) ... (x-q+1)
        PP = z3.Function("count_upto", z3.IntSort(), z3.RealSort())                 # prod_{species < s} falling(x_s, sub_s)
        kr = z3.Select(f["mesh_kr"].arr, mi * R + ri)

        def xs(s):
            return z3.Select(f["mesh_x"].arr, mi * S + s)

        def subs(s):
            return z3.Select(f["sub"].arr, s * R + ri)
        c.assume(PP(0) == 1)
        # ABI: the substrate table is marshalled from ints (MkVec<double,int>): entries are integer-valued
        I.elem_facts = dict(I.elem_facts)
        I.elem_facts["sub"] = lambda I_, o_, e, i: z3.And(e >= 0, K.int_valued_fact(e))
        reads = []
        I.read_facts = dict(I.read_facts)
        I.read_facts["mesh_chstt"] = lambda I_, o_, fr, e, idx: reads.append(1) or None

        def outer(I_, fr, stage):
            a, s = I_.local_by_name(fr, "a"), I_.local_by_name(fr, "s")
            if stage == "assume":
                c.assume(z3.And(FF(xs(s), 0) == 1, PP(s + 1) == PP(s) * FF(xs(s), subs(s))))       # definitions
            return [a == kr * PP(s), a >= 0]

        def inner(I_, fr, stage):
            a, s, q = I_.local_by_name(fr, "a"), I_.local_by_name(fr, "s"), I_.local_by_name(fr, "q")
            if stage == "assume":
                c.assume(z3.And(FF(xs(s), 0) == 1,
                                FF(xs(s), z3.ToReal(q) + 1) == FF(xs(s), z3.ToReal(q)) * (xs(s) - z3.ToReal(q)),
                                PP(s + 1) == PP(s) * FF(xs(s), subs(s))))
            return [a == kr * PP(s) * FF(xs(s), z3.ToReal(q)), q >= 0, z3.ToReal(q) <= subs(s), a >= 0, xs(s) >= subs(s)]
        inv0[("ReactionProp", 1)] = outer
        inv0[("ReactionProp", 2)] = inner
        fn, _ = prog.method(cls, "ReactionProp")
        short = I.fresh("short_species", "int")
        r = I.call(fn, o, [mi, ri], fn, Frame("top"))
        c.oblige(P + "/value: constant x product of falling factorials, or 0 when a reactant is short",
                 z3.Or(r == kr * PP(S), r == 0))
        c.oblige(P + "/non-negative", r >= 0)
        api.check(P + "/chemostat-map-not-read", not reads)

    return Case("%s/ReactionProp" % cls, run, functions=["%s::ReactionProp" % cls], conc=False, max_paths=3000)


def diffusion_prop_case(cls, prop="C07"):
    P = "%s/%s::DiffusionProp" % (prop, cls)

    def run(api):
        prog = C11.program()
        c = api.ctx
        I = K.make_interp(prog, c, prop, loop_inv=dict(K.LOOP_INV))
        o = _obj(I, cls)
        f = o.fields
        S, M = f["n_species"], f["n_meshes"]
        mi, si, n = K._int(I, "mesh_index", 0), K._int(I, "species_index", 0), K._int(I, "direction", 0)
        c.assume(z3.And(mi < M, si < S))
        if K.is_grid(cls):
            c.assume(n < 6)
            kd = z3.Select(f["mesh_kd"].arr, mi * S * 6 + si * 6 + n)
        else:
            for fct in K.rows_match_counts(I, o):
                c.assume(fct)
            cnt = z3.Select(f["mesh_neighbor_n"].arr, mi)
            c.assume(n < cnt)
            kd = z3.Select(z3.Select(f["mesh_kd_out"].arr, mi), si * cnt + n)
        reads = []
        I.read_facts = dict(I.read_facts)
        I.read_facts["mesh_chstt"] = lambda I_, o_, fr, e, idx: reads.append(1) or None
        fn, _ = prog.method(cls, "DiffusionProp")
        r = I.call(fn, o, [mi, si, n], fn, Frame("top"))
        c.oblige(P + "/value: amount x outgoing diffusion constant of that interface", r == z3.Select(f["mesh_x"].arr, mi * S + si) * kd)
        api.check(P + "/chemostat-map-not-read", not reads)

    return Case("%s/DiffusionProp" % cls, run, functions=["%s::DiffusionProp" % cls], conc=False)


def _prop_stubs(I, c, o):
    """contracts of the two propensity functions for their callers: values are functions of the current state and the
    channel (uninterpreted), non-negative"""
    XA = z3.ArraySort(z3.IntSort(), z3.RealSort())
    RP = z3.Function("reaction_propensity", XA, z3.IntSort(), z3.IntSort(), z3.RealSort())
    DP = z3.Function("diffusion_propensity", XA, z3.IntSort(), z3.IntSort(), z3.IntSort(), z3.RealSort())

    def st_r(I_, this, args, fr, node):
        v = RP(this.fields["mesh_x"].arr, args[0], args[1])
        c.assume(v >= 0)
        return v

    def st_d(I_, this, args, fr, node):
        v = DP(this.fields["mesh_x"].arr, args[0], args[1], args[2])
        c.assume(v >= 0)
        return v
    return RP, DP, {"ReactionProp": st_r, "DiffusionProp": st_d}


def compute_propensities_case(cls, prop="C07"):
    P = "%s/%s::ComputePropensities" % (prop, cls)

    def run(api):
        prog = C11.program()
        c = api.ctx
        I = K.make_interp(prog, c, "C07", loop_inv=dict(K.LOOP_INV))
        o = _obj(I, cls)
        f = o.fields
        S, R, M = f["n_species"], f["n_reactions"], f["n_meshes"]
        if not K.is_grid(cls):
            for fct in K.rows_match_counts(I, o):
                c.assume(fct)
        RP, DP, stubs = _prop_stubs(I, c, o)
        I.method_stubs = stubs
        x0 = f["mesh_x"].arr
        seen = {"ar": 0, "ad": 0}

        def chk_ar(I_, o_, fr, v, idx):
            i, r = I_.local_by_name(fr, "i"), I_.local_by_name(fr, "r")
            if fr.fn.endswith("ComputePropensities"):
                seen["ar"] += 1
                return z3.And(idx == i * R + r, v == RP(x0, i, r), v >= 0)
            return None

        def chk_ad(I_, o_, fr, v, idx):
            if not fr.fn.endswith("ComputePropensities"):
                return None
            i, s, n = I_.local_by_name(fr, "i"), I_.local_by_name(fr, "s"), I_.local_by_name(fr, "n")
            seen["ad"] += 1
            if K.is_grid(cls):
                nb = z3.Select(f["mesh_neighbors"].arr, i * 6 + n)
                return z3.And(idx == i * 6 * S + s * 6 + n, v == z3.If(nb != -1, DP(x0, i, s, n), 0), v >= 0)
            cnt = z3.Select(f["mesh_neighbor_n"].arr, i)
            return z3.And(idx == s * cnt + n, v == DP(x0, i, s, n), v >= 0)
        I.store_checks = {"mesh_ar": chk_ar, "mesh_ad": chk_ad}
        fn, _ = prog.method(cls, "ComputePropensities")
        I.call(fn, o, [], fn, Frame("top"))
        c.oblige(P + "/state-not-changed", o.fields["mesh_x"].arr == x0)
        c.oblige(P + "/total-non-negative", o.fields["a0"] >= 0)

    return Case("%s/ComputePropensities" % cls, run, functions=["%s::ComputePropensities" % cls], conc=False, max_paths=3000)


def iterate_case(cls, prop="C07"):
    P = "%s/%s::Iterate" % (prop, cls)

    def run(api):
        from vc.cppsym.interp import CLOG
        prog = C11.program()
        c = api.ctx
        I = K.make_interp(prog, c, "C07", loop_inv=dict(K.LOOP_INV))
        o = _obj(I, cls)
        f = dict(o.fields)
        calls = []
        a0_new = I.fresh("a0_after_compute", "real")
        c.assume(a0_new >= 0)

        def st_compute(I_, this, args, fr, node):
            calls.append("ComputePropensities")
            this.fields["a0"] = a0_new

        def st_draw(I_, this, args, fr, node):
            calls.append("DrawAndApplyEvent")
            c.oblige(P + "/event-only-with-a-positive-total-propensity", this.fields["a0"] > 0)
            n_uniform = len([t for t in I_.trace if t[0] == "uniform"])
            c.oblige(P + "/event-drawn-before-the-waiting-time", z3.BoolVal(n_uniform == 0))

        def st_noop(name):
            def st(I_, this, args, fr, node):
                calls.append(name)
            return st
        I.method_stubs = {"ComputePropensities": st_compute, "DrawAndApplyEvent": st_draw,
                          "SamplingStep": st_noop("SamplingStep"), "CheckTMax": st_noop("CheckTMax"),
                          "FlagAsComplete": st_noop("FlagAsComplete")}
        fn, _ = prog.method(cls, "Iterate")
        I.call(fn, o, [], fn, Frame("top"))
        t0, t1 = f["t"], o.fields["t"]
        was_complete = f["complete"]
        if "DrawAndApplyEvent" in calls:
            us = [t for t in I.trace if t[0] == "uniform"]
            c.oblige(P + "/exactly-one-event-per-step", z3.BoolVal(calls.count("DrawAndApplyEvent") == 1 and
                                                                   calls.index("ComputePropensities") < calls.index("DrawAndApplyEvent")))
            api.check(P + "/one-waiting-time-draw", len(us) == 1)
            if us:
                u = us[-1][1]
                c.oblige(P + "/waiting-time: t' = t + log(1/u)/a0", t1 == t0 + CLOG(1 / u) / a0_new)
                c.oblige(P + "/time-strictly-increases", t1 > t0)
            api.check(P + "/sampling-and-tmax-after-the-step", calls[-2:] == ["SamplingStep", "CheckTMax"])
        else:
            c.oblige(P + "/no-event: time unchanged", t1 == t0)
            c.oblige(P + "/no-event-only-when-complete-or-nothing-can-happen", z3.Or(was_complete, a0_new == 0))

    return Case("%s/Iterate" % cls, run, functions=["%s::Iterate" % cls], conc=False)


def iterate_state_case(cls):
    """whole step with every helper inlined: the state stays a vector of non-negative integers (integrality on)"""
    def run(api):
        prog = C11.program()
        I = K.make_interp(prog, api.ctx, "C07", loop_inv=K.LOOP_INV)
        I.check_integrality = True
        o = _obj(I, cls)
        fn, _ = prog.method(cls, "Iterate")
        I.call(fn, o, [], fn, Frame("top"))
        K.check_inv(I, o, "C07/%s::Iterate(inlined)" % cls)

    return Case("%s/Iterate-keeps-non-negative-integers" % cls, run, functions=["%s::Iterate (+ inlined callees)" % cls],
                conc=False, max_paths=4000)


def poisson_wrapper_case(cls):
    P = "C07/%s::Poisson" % cls

    def run(api):
        prog = C11.program()
        c = api.ctx
        I = K.make_interp(prog, c, "C07", loop_inv=dict(K.LOOP_INV))
        o = _obj(I, cls)
        lam = I.fresh("lambda", "real")
        fn, _ = prog.method(cls, "Poisson")
        r = I.call(fn, o, [lam], fn, Frame("top"))
        tr = [t for t in I.trace if t[0] == "poisson"]
        if tr:
            c.oblige(P + "/draw-with-the-given-mean", z3.And(tr[-1][1] == lam, r == tr[-1][2], lam > 0))
            api.check(P + "/one-draw", len(tr) == 1)
        else:
            c.oblige(P + "/zero-without-a-draw-when-the-mean-is-not-positive", z3.And(r == 0, lam <= 0))

    return Case("%s/Poisson" % cls, run, functions=["%s::Poisson" % cls], conc=False)


def compute_nevt_case(cls, prop="C07"):
    P = "%s/%s::Compute_nevt" % (prop, cls)

    def run(api):
        prog = C11.program()
        c = api.ctx
        I = K.make_interp(prog, c, "C07", loop_inv=dict(K.LOOP_INV))
        o = _obj(I, cls)
        f = o.fields
        S, R, M = f["n_species"], f["n_reactions"], f["n_meshes"]
        if not K.is_grid(cls):
            for fct in K.rows_match_counts(I, o):
                c.assume(fct)
        RP, DP, stubs = _prop_stubs(I, c, o)
        draws = []
        PO = z3.Function("poisson_count", z3.RealSort(), z3.IntSort(), z3.IntSort())    # (mean, draw number) -> count

        def st_poisson(I_, this, args, fr, node):
            r = PO(args[0], z3.IntVal(len(draws)))
            draws.append((args[0], r))
            c.assume(r >= 0)
            return r
        stubs["Poisson"] = st_poisson
        I.method_stubs = stubs
        x0, dt = f["mesh_x"].arr, f["dt"]

        def last_is(v, mean):
            if not draws:
                return z3.BoolVal(False)
            return z3.And(I.to_real(v) == z3.ToReal(draws[-1][1]), draws[-1][0] == mean)

        def chk_nr(I_, o_, fr, v, idx):
            if not fr.fn.endswith("Compute_nevt"):
                return None
            i, r = I_.local_by_name(fr, "i"), I_.local_by_name(fr, "r")
            return z3.And(idx == i * R + r, last_is(v, RP(x0, i, r) * dt))

        def chk_nd(I_, o_, fr, v, idx):
            if not fr.fn.endswith("Compute_nevt"):
                return None
            i, s, n = I_.local_by_name(fr, "i"), I_.local_by_name(fr, "s"), I_.local_by_name(fr, "n")
            if K.is_grid(cls):
                nb = z3.Select(f["mesh_neighbors"].arr, i * 6 + n)
                return z3.And(idx == i * 6 * S + s * 6 + n,
                              z3.If(nb != -1, last_is(v, DP(x0, i, s, n) * dt), I.to_real(v) == 0))
            cnt = z3.Select(f["mesh_neighbor_n"].arr, i)
            return z3.And(idx == s * cnt + n, last_is(v, DP(x0, i, s, n) * dt))
        I.store_checks = {"mesh_nr": chk_nr, "mesh_nd": chk_nd}
        fn, _ = prog.method(cls, "Compute_nevt")
        I.call(fn, o, [], fn, Frame("top"))
        c.oblige(P + "/state-not-changed", o.fields["mesh_x"].arr == x0)

    return Case("%s/Compute_nevt" % cls, run, functions=["%s::Compute_nevt" % cls], conc=False, max_paths=3000)


def _sum_ghosts(I, c, o, x0):
    """ghost partial sums of the propensities of one state: AR(i, r) over reactions, AD(i, k) over the diffusion channels
    k = s*W(i)+n with W = 6 on a grid (0 towards a missing neighbour) and W(i) = number of neighbours on a graph, TOT(i) over
    cells; unfoldings are given as ground instances"""
    f = o.fields
    S, R, M = f["n_species"], f["n_reactions"], f["n_meshes"]
    grid = K.is_grid(o.cls)

    def W(i):
        return z3.IntVal(6) if grid else z3.Select(f["mesh_neighbor_n"].arr, i)
    XA = z3.ArraySort(z3.IntSort(), z3.RealSort())
    RP = z3.Function("reaction_propensity", XA, z3.IntSort(), z3.IntSort(), z3.RealSort())
    DP = z3.Function("diffusion_propensity", XA, z3.IntSort(), z3.IntSort(), z3.IntSort(), z3.RealSort())
    AR = z3.Function("reaction_sum_upto", z3.IntSort(), z3.IntSort(), z3.RealSort())
    AD = z3.Function("diffusion_sum_upto", z3.IntSort(), z3.IntSort(), z3.RealSort())
    TOT = z3.Function("total_upto", z3.IntSort(), z3.RealSort())
    i_ = z3.Int("i!g")
    c.assume(z3.ForAll([i_], z3.And(AR(i_, 0) == 0, AD(i_, 0) == 0)))
    c.assume(TOT(0) == 0)

    def dpv(i, s, n):
        if not grid:
            return DP(x0, i, s, n)
        return z3.If(z3.Select(f["mesh_neighbors"].arr, i * 6 + n) != -1, DP(x0, i, s, n), 0)

    def unfold_r(i, r):
        return z3.Implies(r >= 0, AR(i, r + 1) == AR(i, r) + RP(x0, i, r))

    def unfold_d(i, s, n):
        return z3.Implies(z3.And(s >= 0, n >= 0, n < W(i)), AD(i, s * W(i) + n + 1) == AD(i, s * W(i) + n) + dpv(i, s, n))

    def unfold_t(i):
        return z3.Implies(i >= 0, TOT(i + 1) == TOT(i) + AR(i, R) + AD(i, S * W(i)))
    unfold_t.W = W
    return RP, DP, AR, AD, TOT, dpv, unfold_r, unfold_d, unfold_t


def totals_case(cls="Gillespie3D"):
    """ComputePropensities leaves a0 = sum over all channels, mesh_a0r[i] / mesh_a0d[i] = the sums of cell i"""
    P = "C07/%s::ComputePropensities" % cls

    def run(api):
        prog = C11.program()
        c = api.ctx
        inv0 = dict(K.LOOP_INV)
        I = K.make_interp(prog, c, "C07", loop_inv=inv0)
        o = _obj(I, cls)
        f = o.fields
        S, R, M = f["n_species"], f["n_reactions"], f["n_meshes"]
        x0 = f["mesh_x"].arr
        RP, DP, AR, AD, TOT, dpv, unfold_r, unfold_d, unfold_t = _sum_ghosts(I, c, o, x0)

        def st_r(I_, this, args, fr, node):
            v = RP(x0, args[0], args[1])
            c.assume(v >= 0)
            return v

        def st_d(I_, this, args, fr, node):
            v = DP(x0, args[0], args[1], args[2])
            c.assume(v >= 0)
            return v
        I.method_stubs = {"ReactionProp": st_r, "DiffusionProp": st_d}
        I.store_checks = {}
        i0 = K._int(I, "i0", 0)
        c.assume(i0 < M)

        def L(fr, nm):
            return I.local_by_name(fr, nm)

        W = unfold_t.W

        def cell_done(fr):
            ff = fr.this.fields
            i = L(fr, "i")
            return z3.Implies(i > i0, z3.And(z3.Select(ff["mesh_a0r"].arr, i0) == AR(i0, R), z3.Select(ff["mesh_a0d"].arr, i0) == AD(i0, S * W(i0))))

        def inv1(I_, fr, stage):
            ff = fr.this.fields
            i = L(fr, "i")
            if stage == "assume":
                c.assume(unfold_t(i))
            return [ff["a0"] == TOT(i), cell_done(fr)]

        def inv2(I_, fr, stage):
            ff = fr.this.fields
            i, r = L(fr, "i"), L(fr, "r")
            if stage == "assume":
                c.assume(z3.And(unfold_r(i, r), unfold_t(i)))
            return [ff["a0"] == TOT(i) + AR(i, r), z3.Select(ff["mesh_a0r"].arr, i) == AR(i, r), z3.Select(ff["mesh_a0d"].arr, i) == 0,
                    cell_done(fr)]

        def inv34(level):
            def inv(I_, fr, stage):
                ff = fr.this.fields
                i, s_ = L(fr, "i"), L(fr, "s")
                n = L(fr, "n") if level == 4 else z3.IntVal(0)
                if stage == "assume":
                    c.assume(z3.And(unfold_d(i, s_, n), unfold_t(i)))
                k = s_ * W(i) + n
                return [ff["a0"] == TOT(i) + AR(i, R) + AD(i, k), z3.Select(ff["mesh_a0r"].arr, i) == AR(i, R),
                        z3.Select(ff["mesh_a0d"].arr, i) == AD(i, k), cell_done(fr)]
            return inv
        inv0.update({("ComputePropensities", 1): inv1, ("ComputePropensities", 2): inv2, ("ComputePropensities", 3): inv34(3),
                     ("ComputePropensities", 4): inv34(4)})
        fn, _ = prog.method(cls, "ComputePropensities")
        I.call(fn, o, [], fn, Frame("top"))
        ff = o.fields
        c.oblige(P + "/a0-is-the-sum-over-all-channels", ff["a0"] == TOT(M))
        c.oblige(P + "/cell-sums", z3.And(z3.Select(ff["mesh_a0r"].arr, i0) == AR(i0, R), z3.Select(ff["mesh_a0d"].arr, i0) == AD(i0, S * W(i0))))

    return Case("%s/ComputePropensities-totals" % cls, run, functions=["%s::ComputePropensities" % cls], conc=False, max_paths=3000)


def draw_complete_case(cls="Gillespie3D"):
    """with a0 > 0 the sum of the channels, DrawAndApplyEvent applies exactly one event (reals: no path leaves the
    search without an event)"""
    P = "C07/%s::DrawAndApplyEvent" % cls

    def run(api):
        prog = C11.program()
        c = api.ctx
        inv0 = dict(K.LOOP_INV)
        I = K.make_interp(prog, c, "C07", loop_inv=inv0)
        o = _obj(I, cls)
        f = o.fields
        S, R, M = f["n_species"], f["n_reactions"], f["n_meshes"]
        x0 = f["mesh_x"].arr
        RP, DP, AR, AD, TOT, dpv, unfold_r, unfold_d, unfold_t = _sum_ghosts(I, c, o, x0)
        # post-state of ComputePropensities (its contracts: totals_case, compute_propensities_case)
        c.assume(z3.And(f["a0"] == TOT(M), f["a0"] > 0))
        I.read_facts = dict(I.read_facts)
        I.elem_facts = dict(I.elem_facts)
        I.read_facts["mesh_a0r"] = lambda I_, o_, fr, e, idx: z3.And(e == AR(idx, R), e >= 0)
        W = unfold_t.W
        I.read_facts["mesh_a0d"] = lambda I_, o_, fr, e, idx: z3.And(e == AD(idx, S * W(idx)), e >= 0)

        def ar_read(I_, o_, fr, e, idx):
            i, j = I_.local_by_name(fr, "i"), I_.local_by_name(fr, "j")
            return z3.Implies(idx == i * R + j, z3.And(e == RP(x0, i, j), e >= 0))

        def ad_read(I_, o_, fr, e, idx):
            i, j, n = I_.local_by_name(fr, "i"), I_.local_by_name(fr, "j"), I_.local_by_name(fr, "n")
            if n is None:
                return None
            flat = (i * S * 6 + j * 6 + n) if K.is_grid(cls) else (j * W(i) + n)
            return z3.Implies(idx == flat, z3.And(e == dpv(i, j, n), e >= 0))
        I.read_facts["mesh_ar"] = ar_read
        I.read_facts["mesh_ad"] = ad_read
        calls = []
        I.method_stubs = {"ApplyReaction": lambda I_, this, a, fr, node: calls.append("r"),
                          "ApplyDiffusion": lambda I_, this, a, fr, node: calls.append("d")}

        def L(fr, nm):
            return I.local_by_name(fr, nm)

        def outer(I_, fr, stage):
            i = L(fr, "i")
            if stage == "assume":
                c.assume(unfold_t(i))
            return [L(fr, "r") >= L(fr, "a0_cumul"), L(fr, "a0_cumul") == TOT(i)]

        def inner_r(I_, fr, stage):
            i, j = L(fr, "i"), L(fr, "j")
            if stage == "assume":
                c.assume(unfold_r(i, j))
            return [L(fr, "r2") >= L(fr, "a_cumul"), L(fr, "a_cumul") == AR(i, j)]

        def inner_d(level):
            def inv(I_, fr, stage):
                i, j = L(fr, "i"), L(fr, "j")
                n = L(fr, "n") if level == 2 else z3.IntVal(0)
                if stage == "assume":
                    c.assume(unfold_d(i, j, n))
                return [L(fr, "r2") >= L(fr, "a_cumul"), L(fr, "a_cumul") == AD(i, j * W(i) + n), z3.Not(L(fr, "diff_is_done"))]
            return inv
        inv0.update({("DrawAndApplyEvent", 1): outer, ("DrawAndApplyEvent", 2): inner_r, ("DrawAndApplyEvent", 3): inner_d(1),
                     ("DrawAndApplyEvent", 4): inner_d(2)})
        fn, _ = prog.method(cls, "DrawAndApplyEvent")
        I.call(fn, o, [], fn, Frame("top"))
        api.check(P + "/exactly-one-event-when-a0-is-positive (reals)", len(calls) == 1, "events applied on this path: %d" % len(calls))

    return Case("%s/DrawAndApplyEvent-applies-an-event" % cls, run, functions=["%s::DrawAndApplyEvent" % cls], conc=False,
                max_paths=3000)


def battery_step(tier, seed):
    """concrete replays: thousands of steps of the exact stochastic engine built from the working tree, each step
    checked to be one possible event (ASan+UBSan)"""
    from vc.cppsym.replay import Battery
    b = Battery()
    out = {"name": "step-legality battery", "violations": [], "undecided": [], "runs": 0,
           "bounded": "3000 steps x 2 space types x %d seeds of a 3-cell, 2-species, 2-reaction system with a chemostated entry" %
                      (2 if tier == "quick" else 8)}
    try:
        if not b.build():
            out["crash"] = "driver does not build: " + b.build_log[-800:]
            return out
        seen = set()
        for sp in ("grid", "graph"):
            for sd in range(1 + seed, 1 + seed + (2 if tier == "quick" else 8)):
                r = b.run("step-legality", "gillespie", sp, "no_sampling", "none", sd, timeout=120)
                out["runs"] += 1
                if r["status"] in ("crash", "hang"):
                    sig = "step-legality" if "step-legality" in r["detail"] else ("hang" if r["status"] == "hang" else C11._signature(r))
                    if sig in seen:
                        continue
                    seen.add(sig)
                    out["violations"].append({"obligation": "C07/sanitizer/%s" % sig, "inputs": {"scenario": r["cmd"]},
                                              "status": r["status"], "detail": r["detail"][-600:]})
    finally:
        b.close()
    return out


def link_replay(oid, extra):
    if "Gillespie" not in oid:
        return None
    for e in extra:
        for v in e.get("violations", []):
            if v["obligation"].endswith("step-legality"):
                return {"inputs": v["inputs"], "failed": [oid], "how": "engine built from the working tree, scenario step-legality",
                        "detail": v["detail"][-300:]}
    return None


EXTRA = [battery_step]
CASES = []
if z3 is not None:
    for _c in GILL:
        CASES += [apply_reaction_case(_c), apply_diffusion_case(_c), draw_case(_c), reaction_prop_case(_c),
                  diffusion_prop_case(_c), compute_propensities_case(_c), iterate_case(_c), iterate_state_case(_c)]
    CASES += [totals_case("Gillespie3D"), draw_complete_case("Gillespie3D"), totals_case("GillespieGraph"),
              draw_complete_case("GillespieGraph")]
    # volume-scaled constants of the propensities: Build_mesh_kr contract (shared with C01)
    from props import C01_engine as _ENG
    CASES += [_ENG.build_kr_case("Gillespie3D", "C07"), _ENG.build_kr_case("GillespieGraph", "C07")]
    for _c in TAU:
        CASES += [reaction_prop_case(_c), diffusion_prop_case(_c), poisson_wrapper_case(_c), compute_nevt_case(_c)]


def LATE_CASES():
    """cases shared from C03 and C02 (which import this module)"""
    if z3 is None:
        return []
    out = []
    # "chemostated entries are exempt from the change": no store into a flagged entry, the guard of every store reading the flag
    # of the stored entry itself (C03's contract), for both stochastic engines
    from props import C03 as _C03
    for _c in GILL + TAU:
        out.append(_C03.no_store_into_flagged_case(_c))
    # "one molecule moving between two neighbouring cells", all boundary conditions: the engine's neighbour table is the grid's
    # relation (GetNeighborIndex / BuildMeshNeighbors contracts of C02)
    from props import C02 as _C02
    out.append(_C02.build_neighbors_case())
    for _n in range(6):
        out.append(_C02.pairing_grid_case(_n))
    return out
