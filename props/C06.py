"""C06  Unit conversion is exact SI scaling and composes.

Contracts on convert_unitvalue / UnitValue.convert / UnitArray.convert / convert_value /
compute_conversion_factor / unitssystem_from_dict:

  ensures.value   r.value = q.value * PROD_k (tbl_k(src_k)/tbl_k(dst_k)) ^ dim_k
  ensures.dim     dimension unchanged;  ensures.sys  result system = target system
  raises_iff      target carries another dimension (Units, UnitValue, str forms)
and on two / three successive real conversions (identity, there-and-back, composition).
The tables themselves are checked exhaustively against an independent SI table
(finite case `tables`): 31 base entries, Avogadro's number, 16 derived symbols.
"""
from fractions import Fraction
from vc.core.runner import Case
from vc.core.api import KINDS, KIND_LABELS, SI_TABLE, AVOGADRO
from spec import quant as Q
from props.C05 import mk_units, mk, DB

RTOL = 1e-12

META = {
    "level": "proof",
    "trusted_base": [
        "vc/pysym (CPython executing the real units.py on z3-backed proxies)",
        "z3 / cvc5", "power laws on positive reals (pw_term, L5)",
    ],
    "assumptions": [
        "A1 floats are reals: the 1e-12 rounding bound of the statement is not proved; what is proved is exact "
        "equality over the reals for any positive table plus exact table values (finite check)",
    ],
}


def mk_system(api, pfx):
    U = api.mod("units")
    return U.UnitsSystem(space=api.enum(pfx + "_sp", "space"), time=api.enum(pfx + "_ti", "time"),
                         quantity=api.enum(pfx + "_qu", "quantity"))


def target(api, form, pfx="t"):
    """returns (target object, UnitsSystem of the target, Units or None if the form has no dimension)"""
    U = api.mod("units")
    if form == "Units":
        u = mk_units(api, pfx)
        return u, u.sys, u
    if form == "UnitValue":
        v = mk(api, pfx, "uv")
        return v, v.units.sys, v.units
    if form == "UnitsSystem":
        s = mk_system(api, pfx)
        return s, s, None
    if form == "dict":
        s = mk_system(api, pfx)
        return {"space": s["space"], "time": s["time"], "quantity": s["quantity"]}, s, None
    raise ValueError(form)


def convert_case(kind, form):
    cid = "convert/%s-to-%s" % (kind, form)
    P = "C06/" + cid

    def run(api):
        q = mk(api, "q", kind)
        t, tsys, tunits = target(api, form)
        out = api.call(lambda: q.convert(t))
        must_raise = api.not_(Q.dims_equal(api, q.units, tunits)) if tunits is not None else False
        if not out.ok:
            api.check(P + "/raises_only_if", must_raise, "raised %s" % type(out.exc).__name__)
            return
        api.check(P + "/raises_if", api.not_(must_raise))
        r = out.value
        api.check(P + "/type", type(r) == type(q))
        if type(r) != type(q):
            return
        for k in KINDS:
            api.check(P + "/dim." + k, api.eq(r.units.dim[k], q.units.dim[k]))
            api.check(P + "/sys." + k, api.eq(r.units.sys[k], tsys[k]))
        f = Q.conv_factor(api, q.units.sys, tsys, q.units.dim)
        if kind == "uv":
            api.check(P + "/value", api.eq(r.value, api.num(q.value) * f))
            api.check(P + "/si", api.eq(Q.si(api, r), Q.si(api, q)))
        else:
            api.check(P + "/len", api.eq(api.arr_len(r.value), api.arr_len(q.value)))
            k = api.index("k", api.arr_len(q.value))
            api.check(P + "/value", api.eq(api.arr_get(r.value, k), api.num(api.arr_get(q.value, k)) * f))
            api.check(P + "/si", api.eq(Q.si_at(api, r, k), Q.si_at(api, q, k)))

    return Case(cid, run, functions=["convert_unitvalue", "UnitValue.convert", "UnitArray.convert",
                                     "convert_value", "compute_conversion_factor", "unitssystem_from_dict",
                                     "process_input_dict_keys"])


def chain_case(name, kind):
    cid = "chain/%s/%s" % (name, kind)
    P = "C06/" + cid

    def run(api):
        q = mk(api, "q", kind)
        s1 = mk_system(api, "u")
        s2 = mk_system(api, "w")
        if name == "identity":
            r = q.convert(q.units.sys)
            ref = q
        elif name == "there_and_back":
            r = q.convert(s1).convert(q.units.sys)
            ref = q
        else:
            r = q.convert(s1).convert(s2)
            ref = q.convert(s2)
        for k in KINDS:
            api.check(P + "/dim." + k, api.eq(r.units.dim[k], ref.units.dim[k]))
            api.check(P + "/sys." + k, api.eq(r.units.sys[k], ref.units.sys[k]))
        if kind == "uv":
            api.check(P + "/value", api.eq(r.value, ref.value))
        else:
            k = api.index("k", api.arr_len(q.value))
            api.check(P + "/value", api.eq(api.arr_get(r.value, k), api.arr_get(ref.value, k)))

    return Case(cid, run, functions=["convert_unitvalue", "UnitArray.convert", "compute_conversion_factor"])


# ---------------------------------------------------------------------------
# finite, exhaustive: the tables of units.py have their SI meaning
DERIVED = {  # symbol -> (space unit, space exponent per unit exponent, quantity unit or None)
    "kL": ("m", 3, None), "L": ("dm", 3, None), "mL": ("cm", 3, None), "µL": ("mm", 3, None),
    "nL": ("dmm", 3, None), "pL": ("cmm", 3, None), "fL": ("µm", 3, None),
    "kM": ("dm", -3, "kmol"), "M": ("dm", -3, "mol"), "dM": ("dm", -3, "dmol"), "cM": ("dm", -3, "cmol"),
    "mM": ("dm", -3, "mmol"), "µM": ("dm", -3, "µmol"), "nM": ("dm", -3, "nmol"), "pM": ("dm", -3, "pmol"),
    "fM": ("dm", -3, "fmol"),
}
# SI meaning of the derived symbols, independent of the table above: litre = 1e-3 m3, molar = mol/L
DERIVED_SI = {"kL": Fraction(1), "L": Fraction(1, 10**3), "mL": Fraction(1, 10**6), "µL": Fraction(1, 10**9),
              "nL": Fraction(1, 10**12), "pL": Fraction(1, 10**15), "fL": Fraction(1, 10**18)}
_PFX = {"k": Fraction(10**3), "": Fraction(1), "d": Fraction(1, 10), "c": Fraction(1, 100), "m": Fraction(1, 1000),
        "µ": Fraction(1, 10**6), "n": Fraction(1, 10**9), "p": Fraction(1, 10**12), "f": Fraction(1, 10**15)}
for _p, _f in _PFX.items():
    DERIVED_SI[_p + "M"] = _f * AVOGADRO / Fraction(1, 10**3)


def tables_case(api):
    U = api.mod("units")
    C = api.mod("constants")
    P = "C06/tables"
    conv = U._units_conversion_dict
    labels = U._units_labels_dict
    api.check(P + "/avogadro", C.avogadro_number() == float(AVOGADRO) and float(AVOGADRO) == 6.02214076e23)
    for kind in KINDS:
        api.check(P + "/labels." + kind, list(labels[kind]) == list(KIND_LABELS[kind]))
        api.check(P + "/keys." + kind, sorted(conv[kind].keys()) == sorted(SI_TABLE[kind].keys()))
        for sym, ref in SI_TABLE[kind].items():
            got = conv[kind].get(sym)
            ok = got is not None and abs(Fraction(got) - ref) <= Fraction(1, 10**15) * ref
            api.check("%s/%s.%s" % (P, kind, sym), ok, "table %r spec %s" % (got, float(ref)))
    # derived symbols: expansion and SI scale, every exponent -9..9
    for sym, (sp, mult, qu) in DERIVED.items():
        for e in range(-9, 10):
            if e == 0:
                continue
            txt = sym + (str(e) if e != 1 else "")
            u = U.parse_units(txt)
            ok = (u.dim["space"] == mult * e and u.sys["space"] == sp and u.dim["time"] == 0
                  and u.dim["quantity"] == (e if qu else 0) and (qu is None or u.sys["quantity"] == qu))
            api.check("%s/derived.%s^%d.expansion" % (P, sym, e), ok, str(u))
            sc = Q.unit_scale(api, u)
            api.check("%s/derived.%s^%d.si" % (P, sym, e), sc == DERIVED_SI[sym] ** e)
    # 'u' spelling of micro
    for a, b in (("um", "µm"), ("us", "µs"), ("umol", "µmol"), ("uL", "µL"), ("uM", "µM")):
        api.check("%s/u-spelling.%s" % (P, a), U.parse_units(a) == U.parse_units(b))


CASES = []
for _k in ("uv", "ua"):
    for _f in ("Units", "UnitValue", "UnitsSystem", "dict"):
        CASES.append(convert_case(_k, _f))
    for _n in ("identity", "there_and_back", "composition"):
        CASES.append(chain_case(_n, _k))
CASES.append(Case("tables", tables_case, functions=["_units_conversion_dict", "_units_labels_dict",
                                                    "constants.avogadro_number", "parse_units (derived symbols)"],
                  sym=False, note="finite exhaustive evaluation on the untouched module"))
