"""C10  Simulations terminate, and the engine lifecycle is crash-free and isolated.

  protocol     typestate invariant of the C globals  G == freed or (selected pointer live and initialised):
               every exported function started in G re-establishes G; finalize releases and marks released
  completion   a completed simulation stays completed, further iterations change nothing (Iterate contract)
  wrapper      LibRDEngine.is_complete refers to the current set-up (python, symbolic, recording library)
  termination  every loop of the engine reached from Init / Iterate / the initial-state processing is counted
               (automatic variant) or carries a registered variant that decreases and is bounded
  isolation    two engine objects: operating one must not change what the other returns (real library built
               from the working tree; concrete scenario)
"""
from vc.core.runner import Case
try:
    import z3
    from vc.cppsym import contracts as K
    from vc.cppsym.interp import Frame
except ImportError:
    z3 = None
    from vc.cppsym import names as K
from props import C11, C09, C04
from spec import model as M

META = {
    "level": "proof",
    "trusted_base": ["clang AST + vc/cppsym", "vc/pysym + recording library", "z3 / cvc5"],
    "assumptions": ["A7 single-threaded", "progress of the wall clock (engineexport_run's slice loop) and termination of "
                    "Gillespie runs whose t_max is never reached are not decided",
                    "fixed-step completion after ceil(t_max/dt) steps follows from the Iterate contract (t' = t + dt, complete "
                    "iff t' > t_max) by induction on the step count (L7, not machine-checked here)"],
}


def termination_case(kind, cls=None):
    cid = "termination/%s" % (cls + "::" + kind if cls else kind)

    def run(api):
        prog = C11.program()
        I = K.make_interp(prog, api.ctx, "C10", loop_inv=dict(K.LOOP_INV))
        I.loop_variant = dict(K.LOOP_VARIANT)
        I.require_variants = True
        if kind == "Iterate":
            o = K.valid_object(I, cls)
            K.assume_content_invariants(I, o)
            fn, _ = prog.method(cls, "Iterate")
            I.call(fn, o, [], fn, Frame("top"))
        elif kind == "Init":
            o = I.new_object(cls)
            args, info = (K.abi_args_grid if K.is_grid(cls) else K.abi_args_graph)(I)
            fn, _ = prog.method(cls, "Init")
            I.call(fn, o, args, fn, Frame("top"))
        elif kind == "GenerateStochasticDistribution":
            S = K._int(I, "n_species", 0)
            Mm = K._int(I, "n_meshes", 0)
            v = I.fresh_vec("mesh_x", "real", Mm * S)
            I.param_facts = {"mesh_x": lambda e: e >= 0}
            fn = prog.functions["GenerateStochasticDistribution"][0]
            I.call(fn, None, [v, Mm, S, K._int(I, "seed")], fn, Frame("top"))
        elif kind == "iterate_n":
            o = C11.setup_globals(I, cls, freed=False)
            fn = prog.functions["engineexport_iterate_n"][0]
            I.call(fn, None, [K._int(I, "n")], fn, Frame("top"))
        seen = getattr(I, "loops_seen", {})
        api.check("C10/%s/loops-classified" % cid, len(seen) > 0 or kind == "Iterate")
        for (fn_, ordn), how in sorted(seen.items()):
            api.check("C10/termination/%s/loop%d-%s" % (fn_, ordn, how), how in ("counted", "variant"))

    return Case(cid, run, functions=[(cls + "::" if cls else "") + kind], conc=False, max_paths=4000)


def wrapper_case():
    """completion status reported by an engine refers to its current set-up"""
    cid = "wrapper/is_complete-after-second-setup"
    P = "C10/" + cid

    def run(api):
        L = api.mod("librdengine")
        script, I = C04.mk_script(api, "grid")
        lib = C04.recording_lib(api)
        eng = L.LibRDEngine(lib, option="euler", requires_molecules=False)
        eng.setup(script)
        api.check(P + "/not-complete-after-first-setup", not eng.is_complete())
        ret = api.int("lib_run_result", 0, 1)
        lib.handlers["engineexport_run"] = lambda ms: ret
        lib.handlers["engineexport_iterate"] = lambda: ret
        lib.handlers["engineexport_iterate_n"] = lambda n: ret
        how = api.choice("loop_call", 3)
        out = [lambda: eng.run(10), lambda: eng.iterate(), lambda: eng.iterate_n(5)][how]()
        api.check(P + "/loop-call-returns-library-answer", api.iff(out, api.not_(api.eq(ret, 0))))
        api.check(P + "/is_complete-is-negation-of-last-answer", api.iff(eng.is_complete(), api.eq(ret, 0)))
        eng.finalize()
        eng.setup(script)
        api.check(P + "/not-complete-after-new-setup", api.not_(eng.is_complete()) if api.mode == "sym" else not eng.is_complete())

    return Case(cid, run, functions=["LibRDEngine.setup", "LibRDEngine.run", "LibRDEngine.iterate", "LibRDEngine.iterate_n",
                                     "LibRDEngine.is_complete", "LibRDEngine.finalize"], max_paths=20000)


def isolation_case(api):
    """two engine objects on the real library (built from the working tree into a scratch directory)"""
    import ctypes
    import os
    import shutil
    import subprocess
    import tempfile
    repo = os.environ.get("VERIF_REPO", "/repo")
    src = os.path.join(repo, "src/strengths/engines/strengths_engine/src")
    d = tempfile.mkdtemp(prefix="verif_iso_")
    try:
        so = os.path.join(d, "engine.so")
        p = subprocess.run(["g++", "-O1", "-shared", "-fPIC", "-std=c++11", "-I", src, os.path.join(src, "engine.cpp"), "-o", so],
                           capture_output=True, text=True)
        api.check("C10/isolation/engine-builds", p.returncode == 0, p.stderr[-300:])
        if p.returncode != 0:
            return
        N = api.mod("rdnetwork")
        R = api.mod("rdsystem")
        G = api.mod("rdgridspace")
        S = api.mod("rdscript")
        L = api.mod("librdengine")

        def script(dens, w):
            net = N.RDNetwork([N.Species("A", density=dens, D=1)], [])
            return S.RDScript(R.RDSystem(net, G.RDGridSpace(w=w)), [0, 0.01], time_step=0.005, rng_seed=1)
        e1 = L.LibRDEngine(ctypes.CDLL(so), option="euler")
        e2 = L.LibRDEngine(ctypes.CDLL(so), option="euler")
        a, b = script(3.0, 2), script(7.0, 2)
        e1.setup(a)
        first = list(e1.get_output().data.value)
        e2.setup(b)
        again = list(e1.get_output().data.value)
        api.check("C10/isolation/setting-up-a-second-engine-does-not-change-the-first-one's-output", first == again,
                  "e1 output %r became %r after e2.setup" % (first, again))
        e1.finalize()
        e2.finalize()
        # repeated output, repeated finalize, new set-up afterwards: clean slate
        e1.setup(a)
        o1 = list(e1.get_output().data.value)
        o2 = list(e1.get_output().data.value)
        api.check("C10/lifecycle/output-can-be-fetched-repeatedly", o1 == o2)
        while e1.iterate_n(10):
            pass
        done = list(e1.get_output().data.value)
        e1.iterate()
        e1.iterate_n(3)
        api.check("C10/lifecycle/completed-stays-completed", e1.is_complete() and list(e1.get_output().data.value) == done)
        e1.finalize()
        e1.finalize()
        e1.setup(a)
        api.check("C10/lifecycle/clean-slate-after-release", list(e1.get_output().data.value) == o1 and not e1.is_complete())
        e1.finalize()
    finally:
        shutil.rmtree(d, ignore_errors=True)


def battery_step(tier, seed):
    r = C11.battery_step(tier, seed)
    r["name"] = "sanitizer-battery(C10: hangs and lifecycle crashes)"
    out = []
    for v in r.get("violations", []):
        v = dict(v)
        v["obligation"] = v["obligation"].replace("C11/", "C10/")
        out.append(v)
    r["violations"] = out
    return r


def link_replay(oid, extra):
    want = None
    if "variant" in oid and "GenerateStochasticDistribution" in oid:
        want = "hang"
    elif "typestate" in oid:
        want = "undefined-behaviour"
    if want is None:
        return None
    for e in extra:
        for v in e.get("violations", []):
            if v["obligation"].endswith(want):
                return {"inputs": v["inputs"], "failed": [oid], "how": "sanitizer-battery", "detail": v["detail"][-300:]}
    return None


CASES = []
if z3 is not None:
    for _c in ("Euler3D", "GillespieGraph"):
        for _f in ("engineexport_iterate", "engineexport_iterate_n", "engineexport_run", "engineexport_sample",
                   "engineexport_get_progress", "engineexport_get_nsamples"):
            CASES.append(C11.api_case(_f, _c, prop="C10"))
    for _c in ("Euler3D", "TauLeapGraph", "Gillespie3D"):
        CASES.append(C11.finalize_case(_c, False, prop="C10"))
        CASES.append(C11.finalize_case(_c, True, prop="C10"))
    for _c in K.ALL:
        CASES.append(C09.iterate_timing_case(_c, prop="C10"))
        CASES.append(termination_case("Iterate", _c))
    for _c in ("Euler3D", "EulerGraph"):
        CASES.append(termination_case("Init", _c))
    CASES.append(termination_case("GenerateStochasticDistribution"))
    CASES.append(termination_case("iterate_n", "TauLeap3D"))
CASES.append(wrapper_case())
CASES.append(Case("isolation/two-engines-real-library", isolation_case, functions=["LibRDEngine (two objects)",
                  "engineexport_* globals"], sym=False, bounded="one concrete two-engine scenario on the real library"))
EXTRA = [battery_step]


# completion depends on the end time and the step reaching the engine in the same units: C04's marshalling cases
from props import C04 as _C04
for _sp in ("grid", "graph"):
    CASES.append(_C04.marshal_case(_sp, False))
