"""C13  Default state and chemostat map: density x volume, species-major layout.

Under contract (rdsystem.py, rdgridspace.py, rdgraphspace.py, value_processing.py, rdnetwork.py):
generate_species_state, generate_system_state, generate_species_chemostats,
generate_system_chemostats, RDSystem.__init__/set_default_state/set_default_chemostats/
get_state_index/get_state/set_state/get_chemostat/set_chemostat, RDGridSpace.get_cell_index/
get_cell_vol_array/get_cell_env_array/size, RDGraphSpace.get_cell_index/get_cell_vol_array/
get_cell_env_array, UnitArray.get_at/set_at, RDNetwork.get_species_index, get_value_in_env.

Grid sizes w,h,d, the environment map, all numbers and all unit systems (species, network,
space, nodes, system) are symbolic; the number of species / environments / graph nodes and the
dictionary shape of densities and flags are enumerated (bounds stated per case).
"""
from vc.core.runner import Case
from vc.core.api import KINDS
from spec import quant as Q
from spec import model as M

META = {
    "level": "proof",
    "trusted_base": ["vc/pysym (generic iteration R1 over cells with ite-merge of environment cases)", "z3 / cvc5"],
    "assumptions": [
        "A1", "valid positions and species (invalid ones are C20)",
        "structure enumerated: S <= 3 species, E <= 2 environments, graph of 2 nodes, 6 dictionary shapes; "
        "cells (w,h,d), environment map, values and unit systems unbounded",
    ],
}

DENS = M.dims_of("density")
VOL = M.dims_of("volume")
QTY = M.dims_of("quantity")


def expected_amount(api, net, s, space, i, env):
    """SI amount of species s in cell i: density in the cell's environment (default, then 0) x volume"""
    val = None
    # env is an index (python int in concrete mode / symbolic): density by case analysis
    rho = 0
    for e in reversed(range(net.E)):
        v = net.dens[s].lookup(net.envs[e])
        si = M.si_number(api, v, net.sp_us[s], DENS) if v is not None else 0
        rho = si if e == net.E - 1 else api.ite(api.eq(env, e), si, rho)
    return rho


def expected_flag(api, net, s, env):
    f = 0
    for e in reversed(range(net.E)):
        v = net.chst[s].lookup(net.envs[e])
        b = api.ite(v, 1, 0) if v is not None else 0
        f = b if e == net.E - 1 else api.ite(api.eq(env, e), b, f)
    return f


def grid_volume_si(api, g):
    return M.si_number(api, g.vol, g.us, VOL)


def species_state_case(shape, E, space_kind):
    cid = "species_state/%s/E%d/%s" % (shape, E, space_kind)
    P = "C13/species_state"

    def run(api):
        S = api.mod("rdsystem")
        net = M.mk_network(api, S=1, E=E, dens_shapes=[shape])
        out_us = M.mk_system(api, "out")
        if space_kind == "grid":
            g = M.mk_grid(api, E=E)
            n = g.n
        else:
            g = M.mk_graph(api, N=2, E=E)
            n = 2
        out = api.call(lambda: S.generate_species_state(net.obj.species[0], net.obj, g.obj, out_us))
        api.check(P + "/no_raise", out.ok, "raised %r" % (out.exc,))
        if not out.ok:
            return
        st = out.value
        api.check(P + "/len", api.eq(api.arr_len(st.value), n))
        for k in KINDS:
            api.check(P + "/dim." + k, api.eq(st.units.dim[k], QTY[k]))
            api.check(P + "/sys." + k, api.eq(st.units.sys[k], out_us[k]))
        i = api.index("i", n) if space_kind == "grid" else api.choice("i", 2)
        env = g.env(i)
        if space_kind == "grid":
            vol = grid_volume_si(api, g)
        else:
            vol = M.si_number(api, g.vols[i], g.node_us[i], VOL)
        api.check(P + "/amount", api.eq(Q.si_at(api, st, i), expected_amount(api, net, 0, g, i, env) * vol))

    return Case(cid, run, functions=["generate_species_state", "get_value_in_env",
                                     "RDGridSpace.get_cell_vol_array", "RDGridSpace.get_cell_env_array",
                                     "RDGraphSpace.get_cell_vol_array", "RDGraphSpace.get_cell_env_array",
                                     "UnitArray.get_at", "Species.density (setter)", "process_unitvar_input"])


def system_default_case(S_, E, space_kind, shapes):
    cid = "system_default/S%d/E%d/%s/%s" % (S_, E, space_kind, "+".join(shapes).replace("dict:", ""))
    P = "C13/system_default"

    def run(api):
        R = api.mod("rdsystem")
        # comma keys are a feature of quantity-valued fields only; flags use plain keys
        net = M.mk_network(api, S=S_, E=E, dens_shapes=shapes,
                           chst_shapes=[x.replace("e0+e1", "e0") for x in shapes[::-1]])
        sys_us = M.mk_system(api, "sys")
        if space_kind == "grid":
            g = M.mk_grid(api, E=E)
            n = g.n
        else:
            g = M.mk_graph(api, N=2, E=E)
            n = 2
        out = api.call(lambda: R.RDSystem(net.obj, g.obj, units_system=sys_us))
        api.check(P + "/no_raise", out.ok, "raised %r" % (out.exc,))
        if not out.ok:
            return
        system = out.value
        st = system.state
        api.check(P + "/len", api.eq(api.arr_len(st.value), S_ * n))
        api.check(P + "/chst_len", api.eq(api.arr_len(system.chemostats), S_ * n))
        for k in KINDS:
            api.check(P + "/dim." + k, api.eq(st.units.dim[k], QTY[k]))
        s = api.choice("s", S_)
        i = api.index("i", n) if space_kind == "grid" else api.choice("i", 2)
        env = g.env(i)
        vol = grid_volume_si(api, g) if space_kind == "grid" else M.si_number(api, g.vols[i], g.node_us[i], VOL)
        idx = s * n + i
        api.check(P + "/amount_at_species_major_index",
                  api.eq(Q.si_at(api, st, idx), expected_amount(api, net, s, g, i, env) * vol))
        api.check(P + "/flag_at_species_major_index",
                  api.eq(api.arr_get(system.chemostats, idx), expected_flag(api, net, s, env)))

    return Case(cid, run, functions=["RDSystem.__init__", "RDSystem.set_default_state",
                                     "RDSystem.set_default_chemostats", "generate_system_state",
                                     "generate_system_chemostats", "generate_species_chemostats",
                                     "generate_species_state"],
                bounded=None)


class Pos:
    pass


def position_forms(api, g, form):
    """a valid position of grid g in the given form, with its linear index"""
    if form == "index":
        lin = api.index("plin", g.n)
        return lin, lin
    x = api.int("px", 0, 10**6, draw=(0, 2))
    y = api.int("py", 0, 10**6, draw=(0, 2))
    z = api.int("pz", 0, 10**6, draw=(0, 1))
    api.assume(api.and_(api.lt(x, g.w), api.lt(y, g.h), api.lt(z, g.d)))
    lin = x + y * g.w + z * g.w * g.h
    # L9 (index bound): 0<=x<w, 0<=y<h, 0<=z<d  ==>  0 <= x + y*w + z*w*h < w*h*d
    api.lemma("L9", api.and_(api.le(0, lin), api.lt(lin, g.n)))
    if form == "tuple":
        return (x, y, z), lin
    p = Pos()
    p.x, p.y, p.z = x, y, z
    return p, lin


def accessor_case(sp_form, pos_form, given_state=True):
    cid = "accessors/grid/%s/%s%s" % (sp_form, pos_form, "" if given_state else "/default-state")
    P = "C13/accessors"
    S_ = 3

    def run(api):
        R = api.mod("rdsystem")
        net = M.mk_network(api, S=S_, E=1, species_units=False)
        g = M.mk_grid(api, E=1, env_form="scalar")
        sys_us = M.mk_system(api, "sys")
        n = g.n
        if given_state:
            state = api.array("st", S_ * n)
            chst = api.array("ch", S_ * n, sort="int")
            system = R.RDSystem(net.obj, g.obj, state=state, chemostats=chst, units_system=sys_us)
            st_us = sys_us
        else:
            # default state: stored in the network's units, which differ from the system's
            system = R.RDSystem(net.obj, g.obj, units_system=sys_us)
            state = system.state.value.copy()
            chst = system.chemostats.copy() if api.mode == "conc" else system.chemostats.copy()
            st_us = net.us
        s = api.choice("s", S_)
        sp = {"index": s, "label": M.SPECIES[s], "object": net.obj.species[s]}[sp_form]
        pos, lin = position_forms(api, g, pos_form)
        idx = s * n + lin
        out = api.call(lambda: system.get_state_index(sp, pos))
        api.check(P + "/get_state_index_ok", out.ok, "raised %r" % (out.exc,))
        if out.ok:
            api.check(P + "/get_state_index", api.eq(out.value, idx))
        gs = api.call(lambda: system.get_state(sp, pos))
        api.check(P + "/get_state_ok", gs.ok, "raised %r" % (gs.exc,))
        if gs.ok:
            api.check(P + "/get_state", api.eq(Q.si(api, gs.value),
                                               api.num(api.arr_get(state, idx)) * Q.scale(api, st_us, M.QTY)))
        gc = api.call(lambda: system.get_chemostat(sp, pos))
        api.check(P + "/get_chemostat_ok", gc.ok)
        if gc.ok:
            api.check(P + "/get_chemostat", api.eq(gc.value, api.arr_get(chst, idx)))
        # setters: exactly that entry, converted to the state's units
        other = api.index("other", S_ * n)
        before_o = api.arr_get(system.state.value, other)
        before_c = api.arr_get(system.chemostats, other)
        q = M_quantity(api, "nv")
        ss = api.call(lambda: system.set_state(sp, pos, q))
        api.check(P + "/set_state_ok", ss.ok, "raised %r" % (ss.exc,))
        if ss.ok:
            api.check(P + "/set_state_entry", api.eq(Q.si_at(api, system.state, idx), Q.si(api, q)))
            api.check(P + "/set_state_frame",
                      api.or_(api.eq(other, idx), api.eq(api.arr_get(system.state.value, other), before_o)))
        v = api.real("nb")
        ss2 = api.call(lambda: system.set_state(sp, pos, v))
        api.check(P + "/set_state_number_ok", ss2.ok, "raised %r" % (ss2.exc,))
        if ss2.ok:
            api.check(P + "/set_state_number_entry",
                      api.eq(Q.si_at(api, system.state, idx), api.num(v) * Q.scale(api, sys_us, M.QTY)))
        flag = api.int("nf", 0, 1)
        sc = api.call(lambda: system.set_chemostat(sp, pos, flag))
        api.check(P + "/set_chemostat_ok", sc.ok)
        if sc.ok:
            api.check(P + "/set_chemostat_entry", api.eq(api.arr_get(system.chemostats, idx), flag))
            api.check(P + "/set_chemostat_frame",
                      api.or_(api.eq(other, idx), api.eq(api.arr_get(system.chemostats, other), before_c)))

    return Case(cid, run, functions=["RDSystem.get_state_index", "RDSystem.get_state", "RDSystem.set_state",
                                     "RDSystem.get_chemostat", "RDSystem.set_chemostat",
                                     "RDGridSpace.get_cell_index", "RDGridSpace.is_within_bounds",
                                     "RDNetwork.get_species_index", "UnitArray.get_at", "UnitArray.set_at",
                                     "RDSystem.state (setter)", "RDSystem.chemostats (setter)"])


M.QTY = QTY


def M_quantity(api, pfx):
    U = api.mod("units")
    us = M.mk_system(api, pfx + "us")
    return U.UnitValue(api.real(pfx + "_v"), U.Units(us, U.quantity_units_dimensions()))


def regenerate_case():
    cid = "regenerate_defaults_after_edit"
    P = "C13/" + cid

    def run(api):
        R = api.mod("rdsystem")
        net = M.mk_network(api, S=2, E=1)
        g = M.mk_grid(api, E=1, env_form="scalar")
        system = R.RDSystem(net.obj, g.obj)
        newd = api.real("newdens")
        newc = api.bool("newflag")
        net.obj.species[1].density = newd
        net.obj.species[1].chstt = newc
        system.set_default_state()
        system.set_default_chemostats()
        i = api.index("i", g.n)
        idx = 1 * g.n + i
        exp = M.si_number(api, newd, net.sp_us[1], DENS) * grid_volume_si(api, g)
        api.check(P + "/state_reflects_edit", api.eq(Q.si_at(api, system.state, idx), exp))
        api.check(P + "/flag_reflects_edit", api.eq(api.arr_get(system.chemostats, idx), api.ite(newc, 1, 0)))
        i0 = api.index("i0", g.n)
        exp0 = M.si_number(api, net.dens[0].lookup("e0"), net.sp_us[0], DENS) * grid_volume_si(api, g)
        api.check(P + "/other_species_unchanged", api.eq(Q.si_at(api, system.state, i0), exp0))

    return Case(cid, run, functions=["RDSystem.set_default_state", "RDSystem.set_default_chemostats"])


CASES = []
for _shape in M.SHAPES:
    CASES.append(species_state_case(_shape, 2, "grid"))
CASES.append(species_state_case("scalar", 1, "grid"))
# comma-grouped keys written with blanks around the names ("e0, e1", " e1 ,e0"): each name of the group gets the value
CASES.append(species_state_case("dict:e0+ e1", 2, "grid"))
CASES.append(species_state_case("dict: e1 +e0,default", 2, "grid"))
CASES.append(species_state_case("dict:e1+ e0 ", 2, "graph"))
CASES.append(species_state_case("dict:e0,default", 2, "graph"))
CASES.append(species_state_case("scalar", 1, "graph"))
CASES.append(system_default_case(2, 2, "grid", ["dict:e0,default", "scalar"]))
CASES.append(system_default_case(3, 2, "grid", ["dict:e0", "dict:default", "dict:e0+e1"]))
CASES.append(system_default_case(2, 1, "grid", ["scalar", "scalar"]))
CASES.append(system_default_case(2, 2, "graph", ["dict:e1,default", "scalar"]))
for _sf in ("index", "label", "object"):
    for _pf in ("index", "tuple", "object"):
        CASES.append(accessor_case(_sf, _pf))
CASES.append(accessor_case("label", "tuple", given_state=False))
CASES.append(accessor_case("index", "index", given_state=False))
CASES.append(regenerate_case())


# spaces and networks given as dictionaries: which units a bare volume or density is read in (C04's reader cases)
from props import C04 as _C04
for _k in ("species", "network", "grid", "graph", "system"):
    CASES.append(_C04.reader_case(_k))
