"""C20  Invalid input is rejected, never silently accepted.

For each entry point f and each invalidity predicate bad(input) of the statement:
   bad  ==>  f raises on every path      (and, for setters, raises only if bad)
Symbolic cases quantify over all otherwise-valid inputs (values, unit systems, grid sizes,
positions); dictionary-key / enumerated-string classes are finite and checked exhaustively
on the untouched code.
"""
import itertools
from vc.core.runner import Case
from vc.core.api import KINDS
from spec import quant as Q
from spec import model as M
from spec import gridlemmas as GL
from props.C05 import mk_units, mk
from props.C15 import coords, as_form

META = {
    "level": "proof",
    "trusted_base": ["vc/pysym", "z3 / cvc5"],
    "assumptions": ["A1", "structure enumerated (S <= 2 species, E <= 2 environments, 2-node graphs)",
                    "dictionary-key and enumerated-string classes are finite: exhaustive concrete check"],
}

DIMS = {"density": M.dims_of("density"), "D": M.dims_of("D"), "volume": M.dims_of("volume"),
        "surface": M.dims_of("surface"), "distance": M.dims_of("distance"), "quantity": M.dims_of("quantity"),
        "time": M.dims_of("time")}


def dims_match(api, q, dim):
    return api.and_(*[api.eq(q.units.dim[k], dim[k]) for k in KINDS])


def field_case(name, dimname, setter, getter=None):
    """a field that takes a quantity of a fixed dimension: raises iff the dimension differs"""
    cid = "dimension/" + name
    P = "C20/" + cid

    def run(api):
        q = mk(api, "q", "uv")
        dim = DIMS[dimname]
        out = api.call(lambda: setter(api, q))
        good = dims_match(api, q, dim)
        if not out.ok:
            api.check(P + "/raises_only_if_wrong_dimension", api.not_(good), "raised %r" % (out.exc,))
            return
        api.check(P + "/accepted_only_if_right_dimension", good)
        if getter is not None:
            v = getter(out.value)
            api.check(P + "/physical_value_kept", api.eq(Q.si(api, v), Q.si(api, q)))

    return Case(cid, run, functions=[name, "process_unitvar_input", "UnitValue.__init__"])


def _species(api, **kw):
    return api.mod("rdnetwork").Species("A", units_system=M.mk_system(api, "o"), **kw)


def _grid(api, **kw):
    return api.mod("rdgridspace").RDGridSpace(w=2, h=1, d=1, units_system=M.mk_system(api, "o"), **kw)


def _script(api, **kw):
    N = api.mod("rdnetwork")
    R = api.mod("rdsystem")
    S = api.mod("rdscript")
    net = N.RDNetwork([N.Species("A")], [])
    sysm = R.RDSystem(net)
    args = dict(system=sysm, t_sample=[0, 1], units_system=M.mk_system(api, "o"))
    args.update(kw)
    return S.RDScript(**args)


FIELDS = [
    field_case("Species.density", "density", lambda api, q: _species(api, density=q), lambda s: s.density),
    field_case("Species.D", "D", lambda api, q: _species(api, D=q), lambda s: s.D),
    field_case("Species.density[env]", "density", lambda api, q: _species(api, density={"e0": q, "default": 0}),
               lambda s: s.density["e0"]),
    field_case("RDGridSpace.cell_vol", "volume", lambda api, q: _grid(api, cell_vol=q), lambda g: g.cell_vol),
    field_case("RDGraphSpaceNode.volume", "volume",
               lambda api, q: api.mod("rdgraphspace").RDGraphSpaceNode(volume=q, units_system=M.mk_system(api, "o")),
               lambda n: n.volume),
    field_case("RDGraphSpaceEdge.surface", "surface",
               lambda api, q: api.mod("rdgraphspace").RDGraphSpaceEdge(0, 1, surface=q, units_system=M.mk_system(api, "o")),
               lambda e: e.surface),
    field_case("RDGraphSpaceEdge.distance", "distance",
               lambda api, q: api.mod("rdgraphspace").RDGraphSpaceEdge(0, 1, distance=q, units_system=M.mk_system(api, "o")),
               lambda e: e.distance),
    field_case("RDScript.time_step", "time", lambda api, q: _script(api, time_step=q), lambda s: s.time_step),
    field_case("RDScript.t_max", "time", lambda api, q: _script(api, t_max=q), lambda s: s.t_max),
    field_case("RDScript.sampling_interval", "time", lambda api, q: _script(api, sampling_interval=q),
               lambda s: s.sampling_interval),
]


def array_field_case(name, dimname, setter):
    cid = "dimension/" + name
    P = "C20/" + cid

    def run(api):
        q = mk(api, "q", "ua")
        out = api.call(lambda: setter(api, q))
        good = dims_match(api, q, DIMS[dimname])
        if not out.ok:
            api.check(P + "/raises_only_if_wrong_dimension", api.not_(good), "raised %r" % (out.exc,))
        else:
            api.check(P + "/accepted_only_if_right_dimension", good)

    return Case(cid, run, functions=[name])


def _system_with_state(api, q):
    N = api.mod("rdnetwork")
    R = api.mod("rdsystem")
    net = N.RDNetwork([N.Species("A")], [])
    return R.RDSystem(net, state=q)


FIELDS.append(array_field_case("RDSystem.state", "quantity", _system_with_state))
FIELDS.append(array_field_case("RDScript.t_sample", "time", lambda api, q: _script(api, t_sample=q)))


def set_state_case():
    cid = "dimension/RDSystem.set_state"
    P = "C20/" + cid

    def run(api):
        N = api.mod("rdnetwork")
        R = api.mod("rdsystem")
        net = N.RDNetwork([N.Species("A"), N.Species("B")], [])
        g = api.mod("rdgridspace").RDGridSpace(w=2, h=1, d=1)
        s = R.RDSystem(net, g)
        before = [s.state.value[k] for k in range(4)]
        q = mk(api, "q", "uv")
        out = api.call(lambda: s.set_state("B", 1, q))
        good = dims_match(api, q, DIMS["quantity"])
        if not out.ok:
            api.check(P + "/raises_only_if_wrong_dimension", api.not_(good))
            api.check(P + "/state_unchanged_when_rejected",
                      api.and_(*[api.eq(s.state.value[k], before[k]) for k in range(4)]))
        else:
            api.check(P + "/accepted_only_if_right_dimension", good)

    return Case(cid, run, functions=["RDSystem.set_state", "UnitArray.set_at"])


def grid_size_case():
    cid = "grid/non-positive-size"
    P = "C20/" + cid

    def run(api):
        G = api.mod("rdgridspace")
        w = api.int("w", -5, 10**6, draw=(-1, 3))
        h = api.int("h", -5, 10**6, draw=(-1, 3))
        d = api.int("d", -5, 10**6, draw=(-1, 2))
        out = api.call(lambda: G.RDGridSpace(w=w, h=h, d=d))
        bad = api.or_(api.le(w, 0), api.le(h, 0), api.le(d, 0))
        api.check(P + "/raises_iff_non_positive", api.iff(not out.ok, bad))

    return Case(cid, run, functions=["RDGridSpace.__init__"])


def cell_env_length_case():
    cid = "grid/cell_env-length"
    P = "C20/" + cid

    def run(api):
        G = api.mod("rdgridspace")
        w = api.int("w", 1, 10**6, draw=(1, 3))
        h = api.int("h", 1, 10**6, draw=(1, 2))
        d = api.int("d", 1, 10**6, draw=(1, 2))
        m = api.length("m", 0, 14)
        env = api.array("env", m, sort="int")
        if api.mode == "conc":
            env = [0 for _ in env]
        out = api.call(lambda: G.RDGridSpace(w=w, h=h, d=d, cell_env=env))
        api.check(P + "/raises_iff_wrong_length", api.iff(not out.ok, api.not_(api.eq(m, w * h * d))))

    return Case(cid, run, functions=["RDGridSpace.cell_env (setter)"])


def position_case(which, form):
    """accessors of a system on a symbolic grid with a position outside the grid"""
    cid = "position/%s/%s" % (which, form)
    P = "C20/position/" + which

    def run(api):
        R = api.mod("rdsystem")
        net = M.mk_network(api, S=2, E=1, species_units=False)
        g = M.mk_grid(api, E=1, env_form="scalar")
        n = g.n
        state = api.array("st", 2 * n)
        chst = api.array("ch", 2 * n, sort="int")
        system = R.RDSystem(net.obj, g.obj, state=state, chemostats=chst)
        if form == "index":
            p = api.int("p", -10**7, 10**7, draw=(-3, 12))
            ins = api.and_(api.le(0, p), api.lt(p, n))
            pos = p
        else:
            x, y, z, ins = coords(api, "c", g, inside=False)
            pos = as_form(form, x, y, z)
            if api.mode == "sym":
                # inside positions: index bound (L9) so that the array access is in range
                i = GL.lin(g, x, y, z)
                api.ctx.assume(__import__("z3").Implies(api._z(ins), api._z(api.and_(api.le(0, i), api.lt(i, n)))))
        sp = "B"
        f = {"get_state": lambda: system.get_state(sp, pos),
             "set_state": lambda: system.set_state(sp, pos, 1.0),
             "get_chemostat": lambda: system.get_chemostat(sp, pos),
             "set_chemostat": lambda: system.set_chemostat(sp, pos, 1),
             "get_cell_index": lambda: system.get_cell_index(pos)}[which]
        out = api.call(f)
        if out.ok:
            api.check(P + "/accepts_only_inside", ins)
        else:
            api.check(P + "/rejects_only_outside", api.not_(ins), "raised %r" % (out.exc,))

    return Case(cid, run, functions=["RDSystem." + which, "RDGridSpace.get_cell_index",
                                     "RDGridSpace.is_within_bounds"])


def are_neighbors_position_case():
    cid = "position/are_neighbors"
    P = "C20/" + cid

    def run(api):
        g = M.mk_grid(api, E=1, env_form="scalar")
        x, y, z, ins = coords(api, "c", g, inside=False)
        x2, y2, z2, _ = coords(api, "b", g, inside=True)
        GL.coords_to_index(api, g, x2, y2, z2)
        k = api.choice("order", 2)
        a, b = ((x, y, z), (x2, y2, z2)) if k == 0 else ((x2, y2, z2), (x, y, z))
        out = api.call(lambda: g.obj.are_neighbors(a, b))
        if not out.ok:
            api.check(P + "/rejects_only_outside", api.not_(ins))
        else:
            api.check(P + "/accepts_only_inside", ins)

    return Case(cid, run, functions=["RDGridSpace.are_neighbors"])


def graph_node_case():
    cid = "position/graph-node-index"
    P = "C20/" + cid

    def run(api):
        R = api.mod("rdsystem")
        net = M.mk_network(api, S=1, E=1, species_units=False)
        g = M.mk_graph(api, N=2, E=1, node_units=False)
        system = R.RDSystem(net.obj, g.obj)
        p = api.int("p", -10**6, 10**6, draw=(-2, 4))
        ins = api.and_(api.le(0, p), api.lt(p, 2))
        for nm, f in (("get_cell_index", lambda: g.obj.get_cell_index(p)),
                      ("get_cell_env", lambda: g.obj.get_cell_env(p)),
                      ("get_state", lambda: system.get_state("A", p)),
                      ("set_state", lambda: system.set_state("A", p, 2.0))):
            out = api.call(f)
            if out.ok:
                api.check("%s/%s/accepts_only_inside" % (P, nm), ins)
            else:
                api.check("%s/%s/rejects_only_outside" % (P, nm), api.not_(ins))

    return Case(cid, run, functions=["RDGraphSpace.get_cell_index", "RDGraphSpace.get_cell_env",
                                     "RDSystem.get_state", "RDSystem.set_state"])


def list_item_case(name, dimname, build):
    """a list whose items are quantities: every item must have the field's dimension"""
    cid = "dimension/%s-list-item" % name
    P = "C20/" + cid

    def run(api):
        U = api.mod("units")
        same_system = api.choice("same_system", 2)
        us = M.mk_system(api, "o")
        q = mk(api, "q", "uv")
        if same_system:
            q = U.UnitValue(q.value, U.Units(us, q.units.dim))
        good_item = U.UnitValue(api.real("g"), U.Units(us, U.UnitsDimensions(**DIMS[dimname])))
        out = api.call(lambda: build(api, us, [good_item, q]))
        good = dims_match(api, q, DIMS[dimname])
        if not out.ok:
            api.check(P + "/raises_only_if_wrong_dimension", api.not_(good), "raised %r" % (out.exc,))
        else:
            api.check(P + "/accepted_only_if_right_dimension", good)

    return Case(cid, run, functions=[name, "UnitArray.set_value", "UnitArray.__init__"])


def _script_us(api, us, **kw):
    N = api.mod("rdnetwork")
    R = api.mod("rdsystem")
    S = api.mod("rdscript")
    net = N.RDNetwork([N.Species("A")], [])
    return S.RDScript(system=R.RDSystem(net), units_system=us, **kw)


def _system_us(api, us, state):
    N = api.mod("rdnetwork")
    R = api.mod("rdsystem")
    G = api.mod("rdgridspace")
    net = N.RDNetwork([N.Species("A")], [])
    return R.RDSystem(net, G.RDGridSpace(w=2), state=state, units_system=us)


def env_index_case(space_kind, explicit_state=False):
    """environment map naming an environment beyond the list must not yield a state"""
    cid = "environment-index/" + space_kind + ("/explicit-state" if explicit_state else "")
    P = "C20/environment-index/" + space_kind

    def run(api):
        R = api.mod("rdsystem")
        E = 2
        net = M.mk_network(api, S=1, E=E, dens_shapes=["dict:e0,default"], species_units=False)
        e = api.int("env", -3, 6, draw=(-2, 4))
        bad = api.or_(api.lt(e, 0), api.le(E, e))
        if space_kind == "grid":
            sp = api.mod("rdgridspace").RDGridSpace(w=2, h=1, d=1, cell_env=[0, e])
        else:
            GS = api.mod("rdgraphspace")
            sp = GS.RDGraphSpace(nodes=[GS.RDGraphSpaceNode(environment=0), GS.RDGraphSpaceNode(environment=e)],
                                 edges=[GS.RDGraphSpaceEdge(0, 1)])
        if explicit_state:
            out = api.call(lambda: R.RDSystem(net.obj, sp, state=[1.0, 2.0], chemostats=[0, 1]))
        else:
            out = api.call(lambda: R.RDSystem(net.obj, sp))
        if out.ok:
            api.check(P + "/system_built_only_if_environment_listed", api.not_(bad))
        else:
            api.check(P + "/raises_only_if_environment_not_listed", bad, "raised %r" % (out.exc,))

    return Case(cid, run, functions=["RDSystem.__init__", "generate_species_state", "generate_species_chemostats"])


# ---------------------------------------------------------------------------
# finite classes: exhaustive on the untouched code
def finite_case(api):
    N = api.mod("rdnetwork")
    U = api.mod("units")
    G = api.mod("rdgridspace")
    GS = api.mod("rdgraphspace")
    R = api.mod("rdsystem")
    S = api.mod("rdscript")
    SP = api.mod("rdspace")
    P = "C20/finite"

    def raises(tag, f):
        try:
            f()
        except Exception:
            api.check("%s/%s" % (P, tag), True)
            return
        api.check("%s/%s" % (P, tag), False, "accepted")

    def accepts(tag, f):
        try:
            f()
            api.check("%s/%s" % (P, tag), True)
        except Exception as e:
            api.check("%s/%s" % (P, tag), False, "raised %r" % (e,))

    sp_d = {"label": "A"}
    re_d = {"stoichiometry": "A -> B"}
    net_d = {"species": [{"label": "A"}, {"label": "B"}], "reactions": [re_d]}
    grid_d = {"type": "grid", "w": 2}
    node_d = {"volume": 1}
    edge_d = {"nodes": [0, 1]}
    graph_d = {"type": "graph", "nodes": [node_d, node_d], "edges": [edge_d]}
    sys_d = {"network": net_d}
    scr_d = {"system": sys_d, "t_sample": [0, 1]}
    ua_d = {"value": [1, 2], "units": "s"}
    us_d = {"space": "m", "time": "s", "quantity": "mol"}
    readers = {
        "species": (N.species_from_dict, sp_d, [["label", "l"], ["D", "diff_coef", "diffusion_coefficient", "diff coef", "diffusion coefficient"],
                                                ["density", "concentration", "dens", "conc", "C"], ["chstt", "chemostat"],
                                                ["units", "units_system", "units system", "u"]], {"D": 1, "density": 1, "chstt": True, "units": "default"}),
        "reaction": (N.reaction_from_dict, re_d, [["stoichiometry", "eq", "sto", "equation"], ["label", "l"], ["k+", "kf"], ["k-", "kr"],
                                                  ["units", "units_system", "units system", "u"]], {"label": "r", "k+": 1, "k-": 1, "units": "default", "stoichiometry": "A -> B"}),
        "network": (N.rdnetwork_from_dict, net_d, [["species"], ["reactions"], ["environments", "env"],
                                                   ["units", "units_system", "units system", "u"]], {"environments": ["a"], "units": "default"}),
        "grid": (G.rdgridspace_from_dict, grid_d, [["type"], ["w", "width"], ["h", "height"], ["d", "depth"],
                                                   ["cell_env", "cell_environments", "cell environments", "environments", "env"],
                                                   ["cell_volume", "cell_vol"], ["boundary_conditions"],
                                                   ["units", "units_system", "units system", "u"]],
                 {"w": 2, "h": 1, "d": 1, "cell_env": [0, 0], "cell_volume": 1, "boundary_conditions": {}, "units": "default"}),
        "node": (GS.rdgraphspacenode_from_dict, node_d, [["volume", "vol"], ["environment", "env"],
                                                         ["units", "units_system", "units system", "u"]], {"volume": 1, "environment": 0, "units": "default"}),
        "edge": (GS.rdgraphspaceedge_from_dict, edge_d, [["nodes"], ["surface"], ["distance"],
                                                         ["units", "units_system", "units system", "u"]], {"surface": 1, "distance": 1, "units": "default"}),
        "graph": (GS.rdgraphspace_from_dict, graph_d, [["type"], ["nodes"], ["edges"], ["units", "units_system", "units system", "u"]], {"units": "default"}),
        "system": (R.rdsystem_from_dict, sys_d, [["network", "rdnetwork"], ["space", "rdspace"], ["state"], ["chemostats"],
                                                 ["units", "units_system", "units system", "u"]], {"space": {"w": 1}, "units": "default", "network": net_d}),
        "script": (S.rdscript_from_dict, scr_d, [["system"], ["t_sample"], ["time_step", "time step", "dt"], ["t_max", "tmax"],
                                                 ["sampling_policy", "sampling policy"], ["sampling_interval", "sampling interval"],
                                                 ["rng_seed", "rng seed", "seed"], ["units", "units_system", "units system", "u"]],
                   {"time_step": 1, "t_max": 1, "sampling_policy": "on_iteration", "sampling_interval": 1, "rng_seed": 3, "units": "default"}),
        "unitarray": (U.unitarray_from_dict, ua_d, [["value"], ["units"]], {}),
        "unitssystem": (U.unitssystem_from_dict, us_d, [["space"], ["time"], ["quantity"]], {}),
    }
    import copy
    for name, (f, base, syn, vals) in readers.items():
        accepts(name + "/base", lambda: f(copy.deepcopy(base)))
        raises(name + "/unknown-key", lambda: f(dict(copy.deepcopy(base), **{"no_such_key": 1})))
        # keys close to the accepted ones: every proper substring of an accepted key, and every accepted key with one more
        # character in front or behind, is refused unless it is itself an accepted key (a synonym group that is a bare
        # string instead of a list turns the membership test into a substring test)
        accepted = {a for group in syn for a in group}
        near = set()
        for a in accepted:
            near.update(a[i:j] for i in range(len(a)) for j in range(i + 1, len(a) + 1))
            near.update((a + "x", "x" + a, a + " ", a.upper()))
        wrongly = []
        for k in sorted(near - accepted):
            try:
                f(dict(copy.deepcopy(base), **{k: 1}))
                wrongly.append(k)
            except Exception:
                pass
        api.check("%s/%s/keys-near-the-accepted-ones-are-refused (%d keys)" % (P, name, len(near - accepted)), not wrongly,
                  "accepted: %r" % (wrongly[:6],))
        for group in syn:
            canon = group[0]
            v = base.get(canon, vals.get(canon))
            if v is None:
                continue
            for alias in group:
                d = {k: x for k, x in copy.deepcopy(base).items() if k != canon}
                d[alias] = copy.deepcopy(v)
                accepts("%s/alias/%s" % (name, alias), lambda: f(d))
            for a, b in itertools.combinations(group, 2):
                d = {k: x for k, x in copy.deepcopy(base).items() if k != canon}
                d[a] = copy.deepcopy(v)
                d[b] = copy.deepcopy(v)
                raises("%s/two-synonyms/%s+%s" % (name, a, b), lambda: f(d))
    # mandatory keys
    raises("species/missing-label", lambda: N.species_from_dict({"D": 1}))
    raises("reaction/missing-stoichiometry", lambda: N.reaction_from_dict({"k+": 1}))
    raises("network/missing-species", lambda: N.rdnetwork_from_dict({"reactions": []}))
    raises("network/missing-reactions", lambda: N.rdnetwork_from_dict({"species": [sp_d]}))
    raises("system/missing-network", lambda: R.rdsystem_from_dict({"space": {"w": 1}}))
    raises("script/missing-system", lambda: S.rdscript_from_dict({"t_sample": [0]}))
    raises("script/missing-t_sample", lambda: S.rdscript_from_dict({"system": sys_d}))
    raises("unitarray/missing-units", lambda: U.unitarray_from_dict({"value": [1]}))
    raises("unitarray/missing-value", lambda: U.unitarray_from_dict({"units": "s"}))
    for k in ("space", "time", "quantity"):
        raises("unitssystem/missing-" + k, lambda: U.unitssystem_from_dict({x: v for x, v in us_d.items() if x != k}))
        raises("unitssystem/unsupported-symbol-" + k, lambda: U.UnitsSystem(**{k: "parsec"}))
        raises("unitssystem/symbol-of-other-kind-" + k, lambda: U.UnitsSystem(**{k: {"space": "s", "time": "mol", "quantity": "m"}[k]}))
        raises("unitssystem/non-string-" + k, lambda: U.UnitsSystem(**{k: 3}))
    raises("units/unsupported-symbol", lambda: U.parse_units("parsec"))
    raises("units-key/bad-string", lambda: N.species_from_dict({"label": "A", "units": "metric"}))
    raises("units-key/bad-type", lambda: N.species_from_dict({"label": "A", "units": 3}))
    # boundary conditions, policies, modes
    raises("grid/unknown-axis", lambda: G.RDGridSpace(boundary_conditions={"t": "periodical"}))
    raises("grid/unknown-boundary-mode", lambda: G.RDGridSpace(boundary_conditions={"x": "absorbing"}))
    raises("grid/boundary-not-dict", lambda: G.RDGridSpace(boundary_conditions="periodical"))
    for ax in "xyz":
        for mode in ("reflecting", "periodical"):
            accepts("grid/boundary/%s=%s" % (ax, mode), lambda: G.RDGridSpace(boundary_conditions={ax: mode}))
    net = N.RDNetwork([N.Species("A")], [])
    sysm = R.RDSystem(net)
    raises("script/unknown-sampling-policy", lambda: S.RDScript(sysm, [0, 1], sampling_policy="sometimes"))
    raises("script/sampling-policy-not-string", lambda: S.RDScript(sysm, [0, 1], sampling_policy=1))
    raises("script/unknown-init-state-processing", lambda: S.RDScript(sysm, [0, 1], init_state_processing="round"))
    raises("script/init-state-processing-not-string", lambda: S.RDScript(sysm, [0, 1], init_state_processing=0))
    for pol in ("on_t_sample", "on_iteration", "on_interval", "no_sampling"):
        accepts("script/policy/" + pol, lambda: S.RDScript(sysm, [0, 1], sampling_policy=pol))
    for mode in ("auto", "none", "Poisson", "redist"):
        accepts("script/mode/" + mode, lambda: S.RDScript(sysm, [0, 1], init_state_processing=mode))
    # environments
    raises("network/empty-environments", lambda: N.RDNetwork([N.Species("A")], [], environments=[]))
    raises("network/environment-named-default", lambda: N.RDNetwork([N.Species("A")], [], environments=["a", "default"]))
    raises("network/non-string-environment", lambda: N.RDNetwork([N.Species("A")], [], environments=["a", 3]))
    raises("network/environments-not-array", lambda: N.RDNetwork([N.Species("A")], [], environments="a"))
    # unknown species in accessors
    net2 = N.RDNetwork([N.Species("A"), N.Species("B")], [])
    sys2 = R.RDSystem(net2, G.RDGridSpace(w=2))
    for nm, f in (("get_state", lambda s: sys2.get_state(s, 0)), ("set_state", lambda s: sys2.set_state(s, 0, 1.0)),
                  ("get_chemostat", lambda s: sys2.get_chemostat(s, 0)), ("set_chemostat", lambda s: sys2.set_chemostat(s, 0, 1)),
                  ("get_state_index", lambda s: sys2.get_state_index(s, 0))):
        for bad in ("Z", 2, -1, N.Species("Z"), 7):
            raises("unknown-species/%s/%r" % (nm, bad if not isinstance(bad, N.Species) else "Species(Z)"), lambda: f(bad))
    # reactions naming a species the network does not have, on either side and at any rank
    for eq in ("Z -> A", "A -> Z", "A -> B + Z", " -> Z", "A + B -> 2 Z", "A + Z -> B", "2 Z -> "):
        raises("network/unknown-species-in-reaction/%s" % eq.strip(),
               lambda: N.RDNetwork([N.Species("A"), N.Species("B")], [N.Reaction("A -> B"), N.Reaction(eq)]))
    accepts("network/known-species-in-reaction", lambda: N.RDNetwork([N.Species("A"), N.Species("B")], [N.Reaction("A + B -> 2 B")]))
    # coarse-graining maps mixing environments, wherever the conflicting cell sits
    CG = api.mod("coarsegrain")
    g4 = G.RDGridSpace(w=4, cell_env=[0, 0, 1, 1])
    for im in ([0, 0, 1, 0], [0, 1, 1, 0], [0, 0, 0, 0], [1, 0, 0, 1], [-1, 0, 0, 0 + 0], [0, -1, 1, 0]):
        mixed = any(len(set(g4.get_cell_env_array()[i] for i in range(4) if im[i] == gidx)) > 1 for gidx in set(im) - {-1})
        ok_range = sorted(set(im) - {-1}) == list(range(max(im) + 1)) and max(im) >= 0
        if mixed or not ok_range:
            raises("coarsegrain/invalid-map/%r" % (im,), lambda: CG.check_index_map_validity(list(im), g4))
        else:
            accepts("coarsegrain/valid-map/%r" % (im,), lambda: CG.check_index_map_validity(list(im), g4))
    raises("space/unsupported-type", lambda: SP.rdspace_from_dict({"type": "torus"}))
    raises("system/space-wrong-type", lambda: R.RDSystem(net, space=3))
    raises("system/network-wrong-type", lambda: R.RDSystem({"species": []}))


CASES = list(FIELDS)
CASES.append(set_state_case())
CASES.append(grid_size_case())
CASES.append(cell_env_length_case())
for _w in ("get_state", "set_state", "get_chemostat", "set_chemostat", "get_cell_index"):
    for _f in ("index", "tuple", "object"):
        CASES.append(position_case(_w, _f))
CASES.append(are_neighbors_position_case())
CASES.append(graph_node_case())
CASES.append(env_index_case("grid"))
CASES.append(env_index_case("graph"))
CASES.append(env_index_case("grid", explicit_state=True))
CASES.append(env_index_case("graph", explicit_state=True))
CASES.append(list_item_case("RDScript.t_sample", "time", lambda api, us, items: _script_us(api, us, t_sample=items)))
CASES.append(list_item_case("RDSystem.state", "quantity", lambda api, us, items: _system_us(api, us, items)))
CASES.append(Case("finite/keys-modes-symbols", finite_case, functions=["process_input_dict_keys", "*_from_dict",
                  "RDGridSpace.set_boundary_conditions", "RDScript.sampling_policy", "RDScript.init_state_processing",
                  "RDNetwork.environments", "UnitsSystem setters", "RDNetwork.get_species_index"], sym=False,
                  note="finite input classes, exhaustive"))
