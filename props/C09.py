"""C09  Sampling contract: which states are recorded, when, and in what shape.

Engine side (C++, through vc/cppsym): Sample, SampleOnTSample, SampleOnInterval, SamplingStep, CheckTMax,
Iterate of the fixed-step classes, Init's t = 0 record, engineexport_get_trajectory / get_tsample
(layout sample -> species -> cell).  Python side: RDScript.t_max default, LibRDEngine._get_data /
_get_t_sample shapes and units (seam case, see C04).
"""
from vc.core.runner import Case
try:
    import z3
    from vc.cppsym import contracts as K
    from vc.cppsym.interp import Frame, Vec, Vec2, Ptr, Obj, ObjPtr
except ImportError:
    z3 = None
    from vc.cppsym import names as K
from props.C11 import program, setup_globals

META = {
    "level": "proof",
    "trusted_base": ["clang AST + vc/cppsym interpreter", "z3 / cvc5"],
    "assumptions": ["A1 (t = k*dt exactly)", "requested sample times sorted (property quantifier)",
                    "class invariant of an initialised object (established by Init: C11)"],
}


def obj_case(cid, cls, body, functions):
    def run(api):
        prog = program()
        I = K.make_interp(prog, api.ctx, "C09", loop_inv=dict(K.LOOP_INV))
        o = K.valid_object(I, cls)
        K.assume_content_invariants(I, o)
        body(api, I, o, prog)
    return Case(cid, run, functions=functions, conc=False, max_paths=4000)


def last_row_is_state(I, o, f0):
    """the last recorded state is a copy of mesh_x (Skolem entry)"""
    f = o.fields
    n = f["sampled_t"].n
    k = z3.Int(I.c.fresh("k"))
    row = z3.Select(f["sampled_mesh_x"].arr, n - 1)
    return z3.And(z3.Select(f["sampled_mesh_x"].lens, n - 1) == f["mesh_x"].n,
                  z3.Implies(z3.And(k >= 0, k < f["mesh_x"].n), z3.Select(row, k) == z3.Select(f0["mesh_x"].arr, k)))


def snapshot(o):
    return dict(o.fields)


def sample_case(cls):
    def body(api, I, o, prog):
        f0 = snapshot(o)
        fn, _ = prog.method(cls, "Sample")
        I.call(fn, o, [], fn, Frame("top"))
        f = o.fields
        P = "C09/%s::Sample" % cls
        done0 = f0["sampling_done_this_iteration"]
        c = api.ctx
        c.oblige(P + "/appends-iff-flag-clear", f["sampled_t"].n == f0["sampled_t"].n + z3.If(done0, 0, 1))
        c.oblige(P + "/one-time-per-state", f["sampled_mesh_x"].n == f["sampled_t"].n)
        c.oblige(P + "/flag-set", f["sampling_done_this_iteration"])
        c.oblige(P + "/records-current-time", z3.Implies(z3.Not(done0), z3.Select(f["sampled_t"].arr, f["sampled_t"].n - 1) == f0["t"]))
        c.oblige(P + "/records-current-state", z3.Implies(z3.Not(done0), last_row_is_state(I, o, f0)))
        j = z3.Int(c.fresh("j"))
        c.oblige(P + "/earlier-records-unchanged",
                 z3.Implies(z3.And(j >= 0, j < f0["sampled_t"].n),
                            z3.And(z3.Select(f["sampled_t"].arr, j) == z3.Select(f0["sampled_t"].arr, j),
                                   z3.Select(f["sampled_mesh_x"].arr, j) == z3.Select(f0["sampled_mesh_x"].arr, j))))
        c.oblige(P + "/state-untouched", f["mesh_x"].arr == f0["mesh_x"].arr)
    return obj_case("%s/Sample" % cls, cls, body, ["%s::Sample" % cls])


def tsample_case(cls):
    def body(api, I, o, prog):
        f0 = snapshot(o)
        fn, _ = prog.method(cls, "SampleOnTSample")
        I.call(fn, o, [], fn, Frame("top"))
        f = o.fields
        c = api.ctx
        P = "C09/%s::SampleOnTSample" % cls
        pos, pos0, N = f["sample_pos"], f0["sample_pos"], f["n_samples"]
        c.oblige(P + "/cursor-stops-at-first-time-after-t",
                 z3.Or(pos == N, f["t"] < z3.Select(f["t_samples"].arr, pos)))
        q = z3.Int(c.fresh("q"))
        c.oblige(P + "/every-skipped-time-is-covered", z3.Implies(z3.And(q >= pos0, q < pos),
                                                                 z3.Select(f["t_samples"].arr, q) <= f["t"]))
        c.oblige(P + "/at-most-one-record-per-step", f["sampled_t"].n <= f0["sampled_t"].n + 1)
        c.oblige(P + "/record-iff-a-requested-time-was-reached",
                 z3.Implies(z3.Not(f0["sampling_done_this_iteration"]),
                            (f["sampled_t"].n == f0["sampled_t"].n + 1) == (pos > pos0)))
        c.oblige(P + "/record-is-at-current-time",
                 z3.Implies(f["sampled_t"].n == f0["sampled_t"].n + 1,
                            z3.Select(f["sampled_t"].arr, f["sampled_t"].n - 1) == f0["t"]))
    return obj_case("%s/SampleOnTSample" % cls, cls, body, ["%s::SampleOnTSample" % cls, "%s::Sample" % cls])


def interval_case(cls):
    def body(api, I, o, prog):
        f0 = snapshot(o)
        api.ctx.assume(f0["sampling_interval"] > 0)
        fn, _ = prog.method(cls, "SampleOnInterval")
        I.call(fn, o, [], fn, Frame("top"))
        f = o.fields
        c = api.ctx
        P = "C09/%s::SampleOnInterval" % cls
        ratio = z3.ToReal(z3.ToInt(f0["t"] / f0["sampling_interval"]))
        crossed = ratio > f0["last_tsi_ratio"]
        c.oblige(P + "/records-iff-a-multiple-of-the-interval-was-passed",
                 z3.Implies(z3.Not(f0["sampling_done_this_iteration"]),
                            (f["sampled_t"].n == f0["sampled_t"].n + 1) == crossed))
        c.oblige(P + "/remembers-the-multiple", f["last_tsi_ratio"] == z3.If(crossed, ratio, f0["last_tsi_ratio"]))
        c.oblige(P + "/at-most-one-record", f["sampled_t"].n <= f0["sampled_t"].n + 1)
    return obj_case("%s/SampleOnInterval" % cls, cls, body, ["%s::SampleOnInterval" % cls])


def step_policy_case(cls):
    def body(api, I, o, prog):
        f0 = snapshot(o)
        fn, _ = prog.method(cls, "SamplingStep")
        pol = f0["sampling_policy_code"]
        code = api.ctx.choose(pol, 4)
        I.call(fn, o, [], fn, Frame("top"))
        f = o.fields
        c = api.ctx
        P = "C09/%s::SamplingStep/policy%d" % (cls, code)
        if code == 1:
            c.oblige(P + "/every-step-recorded", z3.Implies(z3.Not(f0["sampling_done_this_iteration"]),
                                                            f["sampled_t"].n == f0["sampled_t"].n + 1))
        if code == 3:
            c.oblige(P + "/nothing-recorded", f["sampled_t"].n == f0["sampled_t"].n)
        c.oblige(P + "/at-most-one-record", f["sampled_t"].n <= f0["sampled_t"].n + 1)
    return obj_case("%s/SamplingStep" % cls, cls, body, ["%s::SamplingStep" % cls])


def iterate_timing_case(cls, prop="C09"):
    fixed = not cls.startswith("Gillespie")

    def body(api, I, o, prog):
        f0 = snapshot(o)
        c = api.ctx
        if fixed:
            c.assume(f0["dt"] > 0)
        fn, _ = prog.method(cls, "Iterate")
        ret = I.call(fn, o, [], fn, Frame("top"))
        f = o.fields
        P = "%s/%s::Iterate" % (prop, cls)
        was = f0["complete"]
        if api.ctx.branch(was):
            c.oblige(P + "/completed-stays-completed", f["complete"])
            c.oblige(P + "/completed-returns-false", z3.Not(ret))
            c.oblige(P + "/completed-changes-nothing",
                     z3.And(f["t"] == f0["t"], f["mesh_x"].arr == f0["mesh_x"].arr, f["sampled_t"].n == f0["sampled_t"].n,
                            f["sample_pos"] == f0["sample_pos"]))
            return
        if fixed:
            c.oblige(P + "/time-advances-by-dt", f["t"] == f0["t"] + f0["dt"])
            c.oblige(P + "/completion-iff-beyond-t_max", f["complete"] == z3.And(f0["t_max"] >= 0, f["t"] > f0["t_max"]))
        else:
            c.oblige(P + "/time-does-not-decrease", f["t"] >= f0["t"])
            c.oblige(P + "/time-strictly-increases-when-an-event-fires", z3.Implies(f["a0"] > 0, f["t"] > f0["t"]))
        c.oblige(P + "/returns-not-complete", ret == z3.Not(f["complete"]))
        c.oblige(P + "/at-most-one-record-per-step", f["sampled_t"].n <= f0["sampled_t"].n + 1)
        c.oblige(P + "/record-carries-the-new-time",
                 z3.Implies(f["sampled_t"].n == f0["sampled_t"].n + 1,
                            z3.Select(f["sampled_t"].arr, f["sampled_t"].n - 1) == f["t"]))
        c.oblige(P + "/t_max-and-step-unchanged", z3.And(f["t_max"] == f0["t_max"], z3.BoolVal(True) if not fixed else f["dt"] == f0["dt"]))
    return obj_case("%s/Iterate-timing" % cls, cls, body, ["%s::Iterate" % cls, "CheckTMax", "SamplingStep", "FlagAsComplete"])


def init_t0_case(cls):
    cid = "%s/Init-t0-record" % cls

    def run(api):
        prog = program()
        I = K.make_interp(prog, api.ctx, "C09", loop_inv=dict(K.LOOP_INV))
        o = I.new_object(cls)
        args, info = (K.abi_args_grid if K.is_grid(cls) else K.abi_args_graph)(I)
        names = [p["name"] for p in prog.params(prog.method(cls, "Init")[0])]
        a = dict(zip(names, args))
        fn, _ = prog.method(cls, "Init")
        I.call(fn, o, args, fn, Frame("top"))
        f = o.fields
        c = api.ctx
        P = "C09/%s::Init" % cls
        pol = a["sampling_policy_code"]
        ts, ns = a["t_samples"], a["sample_n"]
        expect = z3.Or(pol == 1, pol == 2, z3.And(pol == 0, ns > 0, z3.Select(ts.arr, 0) <= 0))
        c.oblige(P + "/starts-at-time-zero", f["t"] == 0)
        c.oblige(P + "/t0-record-iff-policy-asks-for-it", (f["sampled_t"].n == 1) == expect)
        c.oblige(P + "/no-other-record", z3.Or(f["sampled_t"].n == 0, f["sampled_t"].n == 1))
        c.oblige(P + "/t0-record-is-at-zero", z3.Implies(f["sampled_t"].n == 1, z3.Select(f["sampled_t"].arr, 0) == 0))
        k = z3.Int(c.fresh("k"))
        x0 = a["mesh_x0"]
        c.oblige(P + "/t0-record-holds-the-initial-state",
                 z3.Implies(z3.And(f["sampled_t"].n == 1, k >= 0, k < x0.n),
                            z3.Select(z3.Select(f["sampled_mesh_x"].arr, 0), k) == z3.Select(x0.arr, k)))
        c.oblige(P + "/not-complete", z3.Not(f["complete"]))
    return Case(cid, run, functions=["%s::Init" % cls, "SamplingStep"], conc=False, max_paths=4000)


# ---- layout of the exported trajectory -------------------------------------------------------------
def inv_traj(level):
    def inv(I, fr, stage):
        g = I.ghost
        n = I.local_by_name(fr, "n")
        s = I.local_by_name(fr, "s") if level >= 2 else z3.IntVal(0)
        i = I.local_by_name(fr, "i") if level >= 3 else z3.IntVal(0)
        M = I.local_by_name(fr, "n_meshes")
        S = I.local_by_name(fr, "n_species")
        buf = I.local_by_name(fr, "trajectory_data")
        if n is None or M is None or S is None or buf is None or s is None or i is None:
            return [z3.BoolVal(False)]
        cur = n * M * S + s * M + i
        return [M == g["M"], S == g["S"], z3.Implies(cur > g["idx0"], z3.Select(buf.arr, g["idx0"]) == g["want"])]
    return inv


def trajectory_layout_case(cls):
    cid = "api/get_trajectory-layout/%s" % cls

    def run(api):
        prog = program()
        I = K.make_interp(prog, api.ctx, "C09", loop_inv=dict(K.LOOP_INV))
        o = setup_globals(I, cls, freed=False, without_grid_shape=True)
        f = o.fields
        c = api.ctx
        M, S, N = f["n_meshes"], f["n_species"], f["sampled_t"].n
        n0, s0, i0 = K._int(I, "n0", 0), K._int(I, "s0", 0), K._int(I, "i0", 0)
        c.assume(z3.And(n0 < N, s0 < S, i0 < M))
        idx0 = n0 * M * S + s0 * M + i0
        want = z3.Select(z3.Select(f["sampled_mesh_x"].arr, n0), i0 * S + s0)
        I.ghost = {"idx0": idx0, "want": want, "M": M, "S": S}
        grid = K.is_grid(cls)
        base = 0 if grid else 3
        for lvl in (1, 2, 3):
            I.loop_inv[("engineexport_get_trajectory", base + lvl)] = inv_traj(lvl)
        buf = Ptr("real", N * S * M, I.fresh_arr("buf", "real"), "trajectory_data")
        fn = prog.functions["engineexport_get_trajectory"][0]
        fr = Frame("top")
        # keep a handle on the buffer after the call
        holder = {}
        orig_call = I.call

        def call(fn_, this, args, node, fr_):
            return orig_call(fn_, this, args, node, fr_)
        nf_buf = buf
        I.call(fn, None, [nf_buf], fn, fr)
        final = I.last_frame_locals.get("trajectory_data") if hasattr(I, "last_frame_locals") else None
        P = "C09/engineexport_get_trajectory[%s]" % cls
        if final is None:
            c.oblige(P + "/buffer-tracked", z3.BoolVal(False))
            return
        c.oblige(P + "/entry(sample,species,cell)-is-state-of-that-sample-at(cell,species)",
                 z3.Select(final.arr, idx0) == want)

    return Case(cid, run, functions=["engineexport_get_trajectory"], conc=False, max_paths=4000)


def tmax_default_case():
    """RDScript.t_max defaults to the last requested time (python, symbolic)"""
    from spec import model as M_
    from spec import quant as Q

    def run(api):
        S = api.mod("rdscript")
        N = api.mod("rdnetwork")
        R = api.mod("rdsystem")
        net = N.RDNetwork([N.Species("A")], [])
        us = M_.mk_system(api, "sus")
        n = api.length("nt", 1, 4)
        if api.mode == "sym":
            api.ctx.assume(n.z >= 1)
        ts = api.array("ts", n)
        sc = S.RDScript(R.RDSystem(net), ts, units_system=us)
        out = api.call(lambda: sc.t_max)
        api.check("C09/RDScript.t_max/default-ok", out.ok, "raised %r" % (out.exc,))
        if out.ok:
            api.check("C09/RDScript.t_max/default-is-last-requested-time",
                      api.eq(out.value.value, api.arr_get(ts, n - 1)))
            for k in ("space", "time", "quantity"):
                api.check("C09/RDScript.t_max/units." + k, api.eq(out.value.units.sys[k], us[k]))
        v = api.real("tm")
        sc.t_max = v
        api.check("C09/RDScript.t_max/explicit", api.eq(sc.t_max.value, v))
        # requested times stated in their own units (a UnitArray keeps them): the default end time is the same physical
        # time as the last requested one
        U = api.mod("units")
        tus = M_.mk_system(api, "tus")
        ta = U.UnitArray(ts, U.Units(tus, U.time_units_dimensions()))
        sc2 = S.RDScript(R.RDSystem(net), ta, units_system=us)
        out2 = api.call(lambda: sc2.t_max)
        api.check("C09/RDScript.t_max/default-ok (times with own units)", out2.ok, "raised %r" % (out2.exc,))
        if out2.ok:
            api.check("C09/RDScript.t_max/default-is-the-last-requested-time-as-a-physical-quantity",
                      api.eq(Q.si(api, out2.value), M_.si_number(api, api.arr_get(ts, n - 1), tus, M_.dims_of("time"))))
    return Case("python/RDScript.t_max", run, functions=["RDScript.t_max (getter, setter)"])


CASES = []
for _c in ("Euler3D", "GillespieGraph"):
    CASES.append(sample_case(_c))
    CASES.append(tsample_case(_c))
    CASES.append(interval_case(_c))
    CASES.append(step_policy_case(_c))
for _c in K.ALL:
    CASES.append(iterate_timing_case(_c))
for _c in ("Euler3D", "TauLeapGraph"):
    CASES.append(init_t0_case(_c))
for _c in ("Euler3D", "EulerGraph"):
    CASES.append(trajectory_layout_case(_c))
CASES.append(tmax_default_case())


# the sampling parameters reach the engine through the Python seam (policy, interval, t_max, requested times, in this order):
# C04's marshalling cases; the order of the step of the exact stochastic engine (event, time, sampling, end test): C07's case
from props import C04 as _C04
for _sp in ("grid", "graph"):
    CASES.append(_C04.marshal_case(_sp, False))
if z3 is not None:
    from props import C07 as _C07
    for _c in ("Gillespie3D", "GillespieGraph"):
        CASES.append(_C07.iterate_case(_c, "C09"))
