#!/bin/bash
# intake_seeded3.sh <property>: copy the round-3 changes of /tmp/seed3/<property>/seeded_out to /verif/seeded/<property>_7.._8,
# confirm each in the scratch worktree (tests unchanged, demo fails with / passes without), then run the property's check on it
P=$1; WT=${SEEDROOT:-/tmp/seed3}/$P
for i in 1 2; do
  src=$WT/seeded_out/${P}_$i; [ -d $src ] || continue
  id=${P}_$((i+6)); dst=/verif/seeded/$id
  mkdir -p $dst && cp $src/patch.diff $src/demo.py $src/meta.json $dst/
  (cd $WT && git checkout -q -- . )
  /verif/tools/confirm_seeded2.sh $WT $dst 2>&1 | sed "s/^${P}_$((i+6))/CONFIRM $id/"
done
