#!/bin/bash
# confirm_seeded2.sh <worktree> <seed dir>: like confirm_seeded.sh, rebuilding the engine library of the worktree from its sources
WT=$1; SD=$2
SO=$WT/src/strengths/engines/strengths_engine/engine.cpython-312-x86_64-linux-gnu.so
build(){ g++ -O2 -shared -fPIC -std=c++11 -I $WT/src/strengths/engines/strengths_engine/src $WT/src/strengths/engines/strengths_engine/src/engine.cpp -o $SO; }
cd $WT || exit 9
git checkout -q -- . ; build
( cd $SD && PYTHONPATH=$WT/src timeout 300 /venv/bin/python demo.py >/dev/null 2>&1 ); d0=$?
git apply $SD/patch.diff || { echo "apply failed"; exit 8; }
build
( cd $SD && PYTHONPATH=$WT/src timeout 300 /venv/bin/python demo.py >/dev/null 2>&1 ); d1=$?
t=$(PYTHONPATH=$WT/src /venv/bin/python -m pytest -q -p no:cacheprovider --timeout=900 2>&1 | tail -1)
git checkout -q -- . ; build
echo "$(basename $SD): demo pristine=$d0 patched=$d1 tests: $t"
