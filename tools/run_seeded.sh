#!/bin/bash
# run_seeded.sh <seed id> [check args]: apply the seeded change to /repo, run the property's check, undo
ID=$1; shift
PID=$(python3 -c "import json;print(json.load(open('/verif/seeded/$ID/meta.json'))['property'])")
cd /repo && git diff --quiet || { echo "/repo not clean"; exit 9; }
git -C /repo apply /verif/seeded/$ID/patch.diff 2>/dev/null || { echo "apply failed"; exit 8; }
cd /verif
VERIF_EVIDENCE_DIR=/tmp/w/ev_seed/$ID timeout 1500 ./check $PID "$@" > /tmp/w/seed_$ID.log 2>&1
rc=$?
git -C /repo checkout -- .
v=$(grep -c "^VIOLATION" /tmp/w/seed_$ID.log)
echo "$ID: exit=$rc violations=$v $(grep "^VIOLATION" /tmp/w/seed_$ID.log | head -2 | sed 's/.*obligation=//' | tr '\n' ' ') $(grep -E '^(UNDECIDED|CHECKER)' /tmp/w/seed_$ID.log | head -2 | cut -c1-150)"
