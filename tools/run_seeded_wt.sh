#!/bin/bash
# run_seeded_wt.sh <seed id> <worktree> [check args]: like run_seeded.sh, but on a scratch worktree (VERIF_REPO) so that several
# changes can be examined at once; the engine library of the worktree stays the pristine one, as /repo's does in run_seeded.sh
ID=$1; WT=$2; shift; shift
PID=${PROP:-$(python3 -c "import json;print(json.load(open('/verif/seeded/$ID/meta.json'))['property'])")}
cd $WT && git checkout -q -- . && git apply /verif/seeded/$ID/patch.diff 2>/dev/null || { echo "$ID: apply failed"; exit 8; }
cd /verif
VERIF_REPO=$WT VERIF_EVIDENCE_DIR=/tmp/w/ev_seed/$ID timeout 1500 ./check $PID "$@" > /tmp/w/seed_$ID.log 2>&1
rc=$?
git -C $WT checkout -q -- .
v=$(grep -c "^VIOLATION" /tmp/w/seed_$ID.log)
echo "$ID: exit=$rc violations=$v $(grep "^VIOLATION" /tmp/w/seed_$ID.log | head -2 | sed 's/.*obligation=//' | tr '\n' ' ') $(grep -E '^(UNDECIDED|CHECKER)' /tmp/w/seed_$ID.log | head -2 | cut -c1-150)"
