#!/usr/bin/env python3
"""exact-string edit of a repository file that keeps its line-ending style (the repo is CRLF).
usage: repo_edit.py <file> <old-text-file> <new-text-file>   (texts with \n endings)"""
import sys
p, fo, fn = sys.argv[1:4]
s = open(p, newline='', encoding='utf-8').read()
nl = '\r\n' if '\r\n' in s else '\n'
old = open(fo, encoding='utf-8').read().replace('\n', nl)
new = open(fn, encoding='utf-8').read().replace('\n', nl)
n = s.count(old)
if n != 1:
    sys.exit("pattern occurs %d times in %s" % (n, p))
open(p, 'w', newline='', encoding='utf-8').write(s.replace(old, new))
print("edited", p)
