#!/bin/bash
# builds the engine from /repo's working tree into a scratch dir, runs the test suite against it, restores the .so
set -e
SO=/repo/src/strengths/engines/strengths_engine/engine.cpython-312-x86_64-linux-gnu.so
cp $SO /tmp/w/engine_backup.so
g++ -O2 -shared -fPIC -std=c++11 -I/repo/src/strengths/engines/strengths_engine/src /repo/src/strengths/engines/strengths_engine/src/engine.cpp -o $SO
cd /repo && /venv/bin/python -m pytest -q -p no:cacheprovider --timeout=900 2>&1 | tail -2
cp /tmp/w/engine_backup.so $SO
