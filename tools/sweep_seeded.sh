#!/bin/bash
# sweep_seeded.sh: applies every kept seeded change to /repo in turn, runs the check of its property, undoes it;
# writes seeded/RESULTS.tsv (id, property, exit code, number of VIOLATION lines, first obligations)
cd /verif
out=seeded/RESULTS.tsv
# smaller solver budgets: a failing obligation costs a few seconds instead of 32 (the table records detection, not proofs)
export VERIF_Z3_TIMEOUT_MS=${VERIF_Z3_TIMEOUT_MS:-3000} VERIF_CVC5_TIMEOUT_S=${VERIF_CVC5_TIMEOUT_S:-3}
[ -f $out ] || echo -e "seed\tproperty\texit\tviolations\tfirst failing obligations" > $out
for d in seeded/C*_[0-9]; do
  id=$(basename $d)
  grep -q "^$id	" $out && continue
  line=$(bash tools/run_seeded.sh $id 2>&1 | head -1)
  pid=$(python3 -c "import json;print(json.load(open('$d/meta.json'))['property'])")
  ex=$(echo "$line" | sed -n 's/.*exit=\([0-9]*\).*/\1/p')
  nv=$(echo "$line" | sed -n 's/.*violations=\([0-9]*\).*/\1/p')
  ob=$(echo "$line" | sed 's/.*violations=[0-9]* //' | cut -c1-220)
  echo -e "$id\t$pid\t$ex\t$nv\t$ob" >> $out
done
git -C /repo status --short | grep -v "^??" && echo "REPO DIRTY" >> $out
echo done >> /tmp/w/sweep_seeded.done
