#!/bin/bash
# confirm_seeded.sh <worktree> <seed dir>: tests unchanged with patch, demo fails with it and passes without
WT=$1; SD=$2
cd $WT || exit 9
git checkout -q -- . ; 
PYTHONPATH=$WT/src /venv/bin/python $SD/demo.py >/dev/null 2>&1; d0=$?
git apply $SD/patch.diff || { echo "apply failed"; exit 8; }
PYTHONPATH=$WT/src /venv/bin/python $SD/demo.py >/dev/null 2>&1; d1=$?
t=$(PYTHONPATH=$WT/src /venv/bin/python -m pytest -q -p no:cacheprovider --timeout=900 2>&1 | tail -1)
git checkout -q -- .
echo "$(basename $SD): demo pristine=$d0 patched=$d1 tests: $t"
